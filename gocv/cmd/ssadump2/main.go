package main

import (
	"go/types"
	"fmt"
	"os"
	"strings"

	"golang.org/x/tools/go/packages"
	"golang.org/x/tools/go/ssa"
	"golang.org/x/tools/go/ssa/ssautil"
)

func main() {
	dir := os.Args[1]
	pat := os.Args[2]
	fn := os.Args[3]
	cfg := &packages.Config{Mode: packages.LoadAllSyntax, Dir: dir, BuildFlags: []string{"-tags=verif"}}
	pkgs, err := packages.Load(cfg, pat)
	if err != nil {
		panic(err)
	}
	prog, spkgs := ssautil.Packages(pkgs, ssa.NaiveForm|ssa.GlobalDebug)
	_ = prog
	for _, p := range spkgs {
		if p == nil {
			continue
		}
		p.Build()
		for _, m := range p.Members {
			if f, ok := m.(*ssa.Function); ok && strings.Contains(f.Name(), fn) {
				f.WriteTo(os.Stdout)
			}
		}
		for _, m := range p.Members {
			if t, ok := m.(*ssa.Type); ok {
				ms := prog.MethodSets.MethodSet(ptrTo(t))
				for i := 0; i < ms.Len(); i++ {
					f := prog.MethodValue(ms.At(i))
					if f != nil && strings.Contains(f.Name(), fn) {
						f.WriteTo(os.Stdout)
						for _, af := range f.AnonFuncs {
							af.WriteTo(os.Stdout)
						}
					}
				}
			}
		}
	}
	fmt.Println("done")
}

func ptrTo(t *ssa.Type) types.Type { return types.NewPointer(t.Type()) }
