package main

import (
	"fmt"
	"go/types"

	"golang.org/x/tools/go/ssa"
)

// Comparator closures passed to sort.Slice carry a "sortspec":
//   slice: the slice whose elements are compared;  flag: a stable condition (once true, stays true);
//   conflict / less: element-level spec functions C(a,b), L(a,b).
// Obligations on the closure (generated here):   old(flag) ==> flag;   C(S[i],S[j]) ==> flag;
//   !flag ==> res == L(S[i],S[j]);   S unchanged.
// Assumed about sort.Slice at the call site (A-sort, trusted): permutation, flag stable, every adjacent pair of the result
// was compared (so a conflict between neighbours raises the flag), and if the flag stays down the result is sorted w.r.t. L.
func (t *Translator) sortClosureObligations(st *State, env *Env, res string, pos string) {
	sp := t.spec
	tags := funcTags(sp)
	oldEnv := *env
	oldEnv.cur = t.entry.heap
	S0, sty := oldEnv.Eval(sp.SortSlice)
	S1, _ := env.Eval(sp.SortSlice)
	so := t.S().SortOf(sty.Go)
	elemT := &SType{Go: types.Unalias(sty.Go).Underlying().(*types.Slice).Elem()}
	f0, _ := oldEnv.Eval(sp.SortFlag)
	f1, _ := env.Eval(sp.SortFlag)
	i, j := t.vals[t.fn.Params[0]], t.vals[t.fn.Params[1]]
	ei := "(select " + slArr(so, S0) + " " + i + ")"
	ej := "(select " + slArr(so, S0) + " " + j + ")"
	elemEnv := env.with(map[string]binding{"e!i": {term: ei, typ: elemT}, "e!j": {term: ej, typ: elemT}})
	C, _ := elemEnv.Eval(&ECall{Fn: sp.SortConflict, Args: []Expr{&EIdent{"e!i"}, &EIdent{"e!j"}}})
	L, _ := elemEnv.Eval(&ECall{Fn: sp.SortLess, Args: []Expr{&EIdent{"e!i"}, &EIdent{"e!j"}}})
	t.oblige(st, "sort", "stable", tags, "(=> "+f0+" "+f1+")", pos, "old(flag) ==> flag")
	t.oblige(st, "sort", "conflict", tags, "(=> "+C+" "+f1+")", pos, sp.SortConflict+"(S[i],S[j]) ==> flag")
	t.oblige(st, "sort", "order", tags, "(=> (not "+f1+") (= "+res+" "+L+"))", pos, "!flag ==> res == "+sp.SortLess+"(S[i],S[j])")
	t.oblige(st, "sort", "pure", tags, "(= "+S1+" "+S0+")", pos, "the comparator does not modify the slice")
}

// sortSliceCall models sort.Slice(x, less) for a comparator closure with a sortspec. Returns false if not applicable.
func (t *Translator) sortSliceCall(st *State, in *ssa.Call) bool {
	args := in.Call.Args
	if len(args) != 2 {
		return false
	}
	mc, ok := args[1].(*ssa.MakeClosure)
	if !ok {
		return false
	}
	cfn := mc.Fn.(*ssa.Function)
	sp := t.w.specFor(cfn)
	if sp == nil || sp.SortSlice == nil {
		return false
	}
	sp.Used = true
	mi, ok := args[0].(*ssa.MakeInterface)
	if !ok {
		return false
	}
	xs := t.val(st, mi.X)
	orig, hasOrigin := t.origin[mi.X]
	if !hasOrigin {
		t.vc.note("sort.Slice on a slice value without known origin in %s (result dropped)", t.short)
	}
	tags := t.safetyTags
	// closure environment: captured variables by name
	vars := map[string]binding{}
	for k, fv := range cfn.FreeVars {
		elem := fv.Type().(*types.Pointer).Elem()
		vars[fv.Name()] = binding{term: t.refOf(st, mc.Bindings[k]), typ: &SType{Go: elem}, boxT: elem}
	}
	cctx := t.w.ctxFor(cfn.Pkg.Pkg.Path(), sp.File)
	pre := st.heap.clone()
	envPre := &Env{w: t.w, vc: t.vc, cur: pre, old: pre, vars: vars, ctx: cctx}
	S0, sty := envPre.Eval(sp.SortSlice)
	so := t.S().SortOf(sty.Go)
	elemT := &SType{Go: types.Unalias(sty.Go).Underlying().(*types.Slice).Elem()}
	es := t.S().slices[so]
	pos := t.w.pos(in.Pos())
	t.oblige(st, "sort.sameslice", "", tags, "(= "+xs+" "+S0+")", pos, "the slice passed to sort.Slice is the one the comparator indexes")
	// strict weak order obligations on L
	a := t.vc.freshConst("swo!a", es)
	b := t.vc.freshConst("swo!b", es)
	c := t.vc.freshConst("swo!c", es)
	lrel := func(x, y string) string {
		ee := envPre.with(map[string]binding{"e!x": {term: x, typ: elemT}, "e!y": {term: y, typ: elemT}})
		r, _ := ee.Eval(&ECall{Fn: sp.SortLess, Args: []Expr{&EIdent{"e!x"}, &EIdent{"e!y"}}})
		return r
	}
	t.oblige(st, "sort.swo", "irreflexive", tags, "(not "+lrel(a, a)+")", pos, "less is irreflexive")
	t.oblige(st, "sort.swo", "transitive", tags, "(=> (and "+lrel(a, b)+" "+lrel(b, c)+") "+lrel(a, c)+")", pos, "less is transitive")
	t.oblige(st, "sort.swo", "incomparability", tags, "(=> (and (not "+lrel(a, b)+") (not "+lrel(b, a)+") (not "+lrel(b, c)+") (not "+lrel(c, b)+")) (and (not "+lrel(a, c)+") (not "+lrel(c, a)+")))", pos, "incomparability is transitive")
	// effect: closure writes are havocked; the slice is replaced by a permutation
	cw := t.w.writeSetOf(cfn)
	t.havocWrites(st, cw, t.modPreds(sp, envPre), pre)
	nn := t.vc.freshConst("next", "Int")
	t.assume(st, "(>= "+nn+" "+pre.next+")")
	st.heap.next = nn
	S1 := t.vc.freshConst("sorted", so)
	if hasOrigin {
		t.storePath(st, orig, S1, in.Pos())
	}
	t.assume(st, "(= "+slLen(so, S1)+" "+slLen(so, S0)+")")
	t.assume(st, "(= "+slNil(so, S1)+" "+slNil(so, S0)+")")
	ln := slLen(so, S0)
	q := fmt.Sprintf("k!p%d", t.vc.fresh())
	fw := fmt.Sprintf("perm!f%d", t.vc.fresh())
	bw := fmt.Sprintf("perm!b%d", t.vc.fresh())
	t.vc.declareFun(fw, []string{"Int"}, "Int")
	t.vc.declareFun(bw, []string{"Int"}, "Int")
	a0, a1 := slArr(so, S0), slArr(so, S1)
	// bijection between positions
	t.assume(st, "(forall (("+q+" Int)) (! (=> (and (<= 0 "+q+") (< "+q+" "+ln+")) (and (<= 0 ("+fw+" "+q+")) (< ("+fw+" "+q+") "+ln+") (= (select "+a1+" "+q+") (select "+a0+" ("+fw+" "+q+"))) (= ("+bw+" ("+fw+" "+q+")) "+q+"))) :pattern ((select "+a1+" "+q+")) :pattern (("+fw+" "+q+"))))")
	t.assume(st, "(forall (("+q+" Int)) (! (=> (and (<= 0 "+q+") (< "+q+" "+ln+")) (and (<= 0 ("+bw+" "+q+")) (< ("+bw+" "+q+") "+ln+") (= (select "+a0+" "+q+") (select "+a1+" ("+bw+" "+q+"))) (= ("+fw+" ("+bw+" "+q+")) "+q+"))) :pattern ((select "+a0+" "+q+")) :pattern (("+bw+" "+q+"))))")
	envPost := &Env{w: t.w, vc: t.vc, cur: st.heap, old: pre, vars: vars, ctx: cctx}
	f0, _ := envPre.Eval(sp.SortFlag)
	f1, _ := envPost.Eval(sp.SortFlag)
	t.assume(st, "(=> "+f0+" "+f1+")")
	rel := func(fn, x, y string) string {
		ee := envPost.with(map[string]binding{"e!x": {term: x, typ: elemT}, "e!y": {term: y, typ: elemT}})
		r, _ := ee.Eval(&ECall{Fn: fn, Args: []Expr{&EIdent{"e!x"}, &EIdent{"e!y"}}})
		return r
	}
	k := fmt.Sprintf("k!a%d", t.vc.fresh())
	ek, ek1, ekm := "(select "+a1+" "+k+")", "(select "+a1+" (+ "+k+" 1))", "(select "+a1+" (- "+k+" 1))"
	t.assume(st, "(forall (("+k+" Int)) (! (=> (and (<= 0 "+k+") (< "+k+" "+ln+")) (and "+
		"(=> (and (< (+ "+k+" 1) "+ln+") (or "+rel(sp.SortConflict, ek, ek1)+" "+rel(sp.SortConflict, ek1, ek)+")) "+f1+") "+
		"(=> (and (>= "+k+" 1) (or "+rel(sp.SortConflict, ekm, ek)+" "+rel(sp.SortConflict, ek, ekm)+")) "+f1+"))) :pattern ((select "+a1+" "+k+"))))")
	x, y := fmt.Sprintf("k!x%d", t.vc.fresh()), fmt.Sprintf("k!y%d", t.vc.fresh())
	t.assume(st, "(=> (not "+f1+") (forall (("+x+" Int) ("+y+" Int)) (! (=> (and (<= 0 "+x+") (< "+x+" "+y+") (< "+y+" "+ln+")) (not "+rel(sp.SortLess, "(select "+a1+" "+y+")", "(select "+a1+" "+x+")")+")) :pattern ((select "+a1+" "+x+") (select "+a1+" "+y+")))))")
	t.vc.note("A-sort: sort.Slice modelled by its assumed contract (permutation, adjacent pairs compared, sorted if the comparator was consistent) in %s", t.short)
	return true
}
