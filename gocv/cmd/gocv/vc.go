package main

import (
	"path"
	"fmt"
	"go/types"
	"sort"
	"strings"
)

type Obligation struct {
	Name   string
	Kind   string // ensures, requires, loop.init, loop.preserve, safety, frame, lemma, cover
	Tags   []string
	PC     string
	Goal   string
	Pos    string
	Src    string
	Func   string
	Cover  bool // cover obligation: expected SAT (reachability)
	Short  bool            // expected to stay open (pinned by a known finding): short timeouts, no retry
	Hints  map[string]bool // labels of the quantified hypotheses this obligation may use (nil: all)
	Status string
	Solver string
	TimeS  float64
	Output string
	vc     *FuncVC
	split  []string
}

// FuncVC collects the constraint system of one procedure.
type FuncVC struct {
	w         *World
	name      string
	decls     map[string]string
	declOrder []string
	funDecls  map[string]string
	funOrder  []string
	axioms    []string
	pcParents map[string][]string
	pcCons    map[string][]string
	obs       []*Obligation
	counter   int
	cards     map[string]bool
	letVars   map[string]bool   // names bound by let in expanded spec functions
	defs      map[string]string // definitional constants: name -> defining term
	defByTerm map[string]string // defining term -> name
	defOrder  []string
	copyIns   map[string]types.Type // refs of boxed copies of escaped interior pointers (read-only model)
	strFuns   bool
	boxes     map[string]bool
	notes     []string // unsupported constructs / approximations encountered
	unsupported []string
	globals   map[*types.Var]string
	specAx    []string
	joins     map[string][]string // join pc -> incoming edge pcs
	opaqueMono map[string]bool
	homePkg    string          // package of the function being verified: its opaque preds are revealed
	reveal     map[string]bool // explicitly revealed opaque preds
	revealAll  bool
	hide       map[string]bool
	verNext    map[string]string // heap array version -> allocation counter when it was created (wfHeap facts)
	scopeEnd   map[string]string // scoped assumption "pc\x00formula" -> pc at which it is forgotten
	openScoped []string
	entryPC    string          // pc after the preconditions were assumed
	consLabel  map[string]string // pc \x00 constraint -> label (for hints)
	softCut    map[string]bool   // cut pcs that forget quantified facts only (loop heads)
	cutAt      map[string]string // pc at which a cut takes effect -> pc just before the cut's own assertions
}

func NewFuncVC(w *World, name string) *FuncVC {
	return &FuncVC{w: w, name: name, decls: map[string]string{}, funDecls: map[string]string{},
		pcParents: map[string][]string{}, pcCons: map[string][]string{}, cards: map[string]bool{}, copyIns: map[string]types.Type{}, letVars: map[string]bool{}, defs: map[string]string{}, defByTerm: map[string]string{},
		boxes: map[string]bool{}, globals: map[*types.Var]string{}, joins: map[string][]string{}, opaqueMono: map[string]bool{}, reveal: map[string]bool{}, hide: map[string]bool{}, verNext: map[string]string{}, scopeEnd: map[string]string{}, cutAt: map[string]string{}, softCut: map[string]bool{}, consLabel: map[string]string{}}
}

func (vc *FuncVC) fresh() int { vc.counter++; return vc.counter }

func (vc *FuncVC) declare(name, sort string) {
	if old, ok := vc.decls[name]; ok {
		if old != sort {
			panic(fmt.Sprintf("redeclaration of %s: %s vs %s", name, old, sort))
		}
		return
	}
	vc.decls[name] = sort
	vc.declOrder = append(vc.declOrder, name)
}

func (vc *FuncVC) freshConst(prefix, sort string) string {
	n := fmt.Sprintf("%s!%d", prefix, vc.fresh())
	vc.declare(n, sort)
	return n
}

func (vc *FuncVC) declareFun(name string, args []string, ret string) {
	d := fmt.Sprintf("(declare-fun %s (%s) %s)", name, strings.Join(args, " "), ret)
	if old, ok := vc.funDecls[name]; ok {
		if old != d {
			panic("conflicting declare-fun for " + name + ": " + old + " vs " + d)
		}
		return
	}
	vc.funDecls[name] = d
	vc.funOrder = append(vc.funOrder, name)
}

func (vc *FuncVC) useGlobal(o *types.Var, name string) { vc.globals[o] = name }

func (vc *FuncVC) needCard(ks string) {
	if vc.cards[ks] {
		return
	}
	vc.cards[ks] = true
	n := sanitize(ks)
	set := "(Array " + ks + " Bool)"
	vc.declareFun("card!"+n, []string{set}, "Int")
	vc.declareFun("wit!"+n, []string{set}, ks)
	c := func(s string) string { return "(card!" + n + " " + s + ")" }
	vc.axioms = append(vc.axioms,
		fmt.Sprintf("(forall ((S %s)) (! (>= %s 0) :pattern (%s)))", set, c("S"), c("S")),
		fmt.Sprintf("(forall ((S %s) (k %s)) (! (= %s (+ %s (ite (select S k) 0 1))) :pattern (%s)))", set, ks,
			c("(store S k true)"), c("S"), c("(store S k true)")),
		fmt.Sprintf("(forall ((S %s) (k %s)) (! (= %s (- %s (ite (select S k) 1 0))) :pattern (%s)))", set, ks,
			c("(store S k false)"), c("S"), c("(store S k false)")),
		fmt.Sprintf("(= %s 0)", c("((as const "+set+") false)")),
		fmt.Sprintf("(forall ((S %s) (k %s)) (! (=> (= %s 0) (not (select S k))) :pattern (%s (select S k))))", set, ks, c("S"), c("S")),
		fmt.Sprintf("(forall ((S %s)) (! (=> (> %s 0) (select S (wit!%s S))) :pattern (%s)))", set, c("S"), n, c("S")),
		// finite sets of equal cardinality that differ have an element of the first outside the second
		fmt.Sprintf("(forall ((S %s) (T %s)) (! (=> (= %s %s) (or (= S T) (and (select S (dwit!%s S T)) (not (select T (dwit!%s S T)))))) :pattern (%s %s)))",
			set, set, c("S"), c("T"), n, n, c("S"), c("T")),
	)
	vc.declareFun("dwit!"+n, []string{set, set}, ks)
	// extensionality, phrased for cardinalities: sets of different cardinality differ at some element
	vc.declareFun("ewit!"+n, []string{set, set}, ks)
	vc.axioms = append(vc.axioms,
		fmt.Sprintf("(forall ((S %s) (T %s)) (! (or (= %s %s) (not (= (select S (ewit!%s S T)) (select T (ewit!%s S T))))) :pattern (%s %s)))",
			set, set, c("S"), c("T"), n, n, c("S"), c("T")))
}

func (vc *FuncVC) needStrFuns() {
	if vc.strFuns {
		return
	}
	vc.strFuns = true
	vc.declareFun("str!cat", []string{"Str", "Str"}, "Str")
	vc.declareFun("str!len", []string{"Str"}, "Int")
	vc.declareFun("str!lt", []string{"Str", "Str"}, "Bool")
	vc.axioms = append(vc.axioms,
		"(forall ((s Str)) (! (>= (str!len s) 0) :pattern ((str!len s))))",
		"(= (str!len "+vc.w.S.StrLit("")+") 0)",
		"(forall ((a Str) (b Str)) (! (= (str!len (str!cat a b)) (+ (str!len a) (str!len b))) :pattern ((str!cat a b))))",
		"(forall ((a Str)) (! (= (str!cat a "+vc.w.S.StrLit("")+") a) :pattern ((str!cat a "+vc.w.S.StrLit("")+"))))",
		"(forall ((a Str)) (! (= (str!cat "+vc.w.S.StrLit("")+" a) a) :pattern ((str!cat "+vc.w.S.StrLit("")+" a))))",
		"(forall ((a Str)) (! (not (str!lt a a)) :pattern ((str!lt a a))))",
		"(forall ((a Str) (b Str)) (! (or (str!lt a b) (str!lt b a) (= a b)) :pattern ((str!lt a b))))",
		"(forall ((a Str) (b Str)) (! (not (and (str!lt a b) (str!lt b a))) :pattern ((str!lt a b))))",
		"(forall ((a Str) (b Str) (c Str)) (! (=> (and (str!lt a b) (str!lt b c)) (str!lt a c)) :pattern ((str!lt a b) (str!lt b c))))",
	)
}

func (vc *FuncVC) needBox(so string) (box, unbox string) {
	n := sanitize(so)
	box, unbox = "box!"+n, "unbox!"+n
	if vc.boxes[so] {
		return
	}
	vc.boxes[so] = true
	vc.declareFun(box, []string{so}, "Int")
	vc.declareFun(unbox, []string{"Int"}, so)
	vc.axioms = append(vc.axioms, fmt.Sprintf("(forall ((v %s)) (! (= (%s (%s v)) v) :pattern ((%s v))))", so, unbox, box, box))
	return
}

// newPC creates a path-condition variable implied-by-parents: pc => (and parents...) is added by caller through constraints.
func (vc *FuncVC) newPC(prefix string, parents ...string) string {
	n := fmt.Sprintf("pc!%s!%d", prefix, vc.fresh())
	vc.declare(n, "Bool")
	vc.pcParents[n] = parents
	return n
}

func (vc *FuncVC) assume(pc, f string) {
	if f == "true" {
		return
	}
	vc.pcCons[pc] = append(vc.pcCons[pc], f)
}

func (vc *FuncVC) note(format string, a ...interface{}) {
	s := fmt.Sprintf(format, a...)
	for _, n := range vc.notes {
		if n == s {
			return
		}
	}
	vc.notes = append(vc.notes, s)
}

func (vc *FuncVC) unsupportedf(format string, a ...interface{}) {
	s := fmt.Sprintf(format, a...)
	for _, n := range vc.unsupported {
		if n == s {
			return
		}
	}
	vc.unsupported = append(vc.unsupported, s)
}

// ancestors returns the pcs reachable upward from pc (including itself), in deterministic order.
// choice maps a join pc to the single incoming edge to follow (path splitting); joins not in choice follow all parents.
func (vc *FuncVC) ancestors(pc string, choice map[string]string) []string {
	seen := map[string]bool{}
	var order []string
	var visit func(p string)
	visit = func(p string) {
		if seen[p] {
			return
		}
		seen[p] = true
		if c, ok := choice[p]; ok {
			visit(c)
		} else {
			for _, q := range vc.pcParents[p] {
				visit(q)
			}
		}
		order = append(order, p)
	}
	visit(pc)
	return order
}

// pathChoices enumerates the ways to resolve every join above pc to one incoming edge (nil if more than limit).
func (vc *FuncVC) pathChoices(pc string, limit int) []map[string]string {
	var out []map[string]string
	overflow := false
	var rec func(choice map[string]string)
	rec = func(choice map[string]string) {
		if overflow {
			return
		}
		// first unresolved join among the ancestors under the current choice
		var j string
		for _, p := range vc.ancestors(pc, choice) {
			if _, isJoin := vc.joins[p]; isJoin {
				if _, done := choice[p]; !done {
					j = p
				}
			}
		}
		// ancestors() lists parents before children, so the last unresolved join found is the one closest to pc
		if j == "" {
			c := map[string]string{}
			for k, v := range choice {
				c[k] = v
			}
			out = append(out, c)
			if len(out) > limit {
				overflow = true
			}
			return
		}
		for _, e := range vc.joins[j] {
			choice[j] = e
			rec(choice)
		}
		delete(choice, j)
	}
	rec(map[string]string{})
	if overflow || len(out) <= 1 {
		return nil
	}
	return out
}

// Query builds the SMT-LIB text for one obligation.
func (vc *FuncVC) Query(ob *Obligation) string { return vc.QueryChoice(ob, nil) }

func (vc *FuncVC) QueryChoice(ob *Obligation, choice map[string]string) string {
	return vc.QueryGoal(ob, choice, ob.Goal)
}

// splitConj flattens a goal of the form (and a b ...) into its conjuncts (also under let-free nesting).
func splitConj(goal string) []string {
	g := strings.TrimSpace(goal)
	if !strings.HasPrefix(g, "(and ") {
		return []string{g}
	}
	body := g[5 : len(g)-1]
	var parts []string
	depth, start := 0, -1
	for i := 0; i < len(body); i++ {
		c := body[i]
		switch {
		case c == '(':
			if depth == 0 && start < 0 {
				start = i
			}
			depth++
		case c == ')':
			depth--
			if depth == 0 {
				parts = append(parts, body[start:i+1])
				start = -1
			}
		case c == ' ' || c == '\n':
			if depth == 0 && start >= 0 {
				parts = append(parts, body[start:i])
				start = -1
			}
		default:
			if depth == 0 && start < 0 {
				start = i
			}
		}
	}
	if start >= 0 {
		parts = append(parts, body[start:])
	}
	var out []string
	for _, p := range parts {
		out = append(out, splitConj(p)...)
	}
	return out
}

func (vc *FuncVC) QueryGoal(ob *Obligation, choice map[string]string, goal string) string {
	var body strings.Builder
	anc := vc.ancestors(ob.PC, choice)
	ancSet := map[string]bool{}
	for _, p := range anc {
		ancSet[p] = true
	}
	// cuts: facts learnt between the entry region and a cut point above the obligation are forgotten
	keepEntry := map[string]bool{}
	if vc.entryPC != "" {
		for _, p := range vc.ancestors(vc.entryPC, choice) {
			keepEntry[p] = true
		}
	}
	dropped := map[string]bool{}
	softDropped := map[string]bool{} // loop-head cuts: only the quantified facts are forgotten
	if vc.entryPC != "" {
		keep := map[string]bool{}
		for _, p := range vc.ancestors(vc.entryPC, choice) {
			keep[p] = true
		}
		for _, p := range anc {
			if from, isCut := vc.cutAt[p]; isCut {
				for _, q := range vc.ancestors(from, choice) {
					if !keep[q] {
						if vc.softCut[p] {
							if !dropped[q] {
								softDropped[q] = true
							}
						} else {
							dropped[q] = true
							delete(softDropped, q)
						}
					}
				}
			}
		}
	}
	for _, p := range anc {
		if parents, isJoin := vc.joins[p]; isJoin {
			if c, ok := choice[p]; ok {
				fmt.Fprintf(&body, "(assert (=> %s %s))\n", p, c)
			} else {
				fmt.Fprintf(&body, "(assert (=> %s (or %s)))\n", p, strings.Join(parents, " "))
			}
		}
		if dropped[p] {
			if _, isJoin := vc.joins[p]; !isJoin && len(vc.pcParents[p]) > 0 {
				fmt.Fprintf(&body, "(assert (=> %s %s))\n", p, vc.pcParents[p][0])
			}
			continue
		}
		for _, c := range vc.pcCons[p] {
			if end, scoped := vc.scopeEnd[p+"\x00"+c]; scoped && end != "" && ancSet[end] {
				continue // a ghost assertion whose window has closed
			}
			if softDropped[p] && (strings.Contains(c, "(forall ") || strings.Contains(c, "(exists ")) {
				continue
			}
			if ob.Hints != nil && (strings.Contains(c, "(forall ") || strings.Contains(c, "(exists ")) {
				// only hypotheses that come from specifications carry a label; the engine's own facts (append, slicing,
				// range, typing) are always kept
				if l, labelled := vc.consLabel[p+"\x00"+c]; labelled && !hintAllows(ob.Hints, l) {
					continue // proof hint: this quantified hypothesis is not among the named ones
				}
			}
			fmt.Fprintf(&body, "(assert (=> %s %s))\n", p, c)
		}
	}
	if ob.PC != "pc!true" {
		fmt.Fprintf(&body, "(assert %s)\n", ob.PC)
	}
	if ob.Cover {
		fmt.Fprintf(&body, "(assert %s)\n", goal)
	} else {
		fmt.Fprintf(&body, "(assert (not %s))\n", goal)
	}
	// definitional constants that occur (transitively) in the body
	{
		textSoFar := body.String()
		added := map[string]bool{}
		for changed := true; changed; {
			changed = false
			used := usedSymbols(textSoFar)
			for _, n := range vc.defOrder {
				if used[n] && !added[n] {
					added[n] = true
					changed = true
					line := fmt.Sprintf("(assert (= %s %s))\n", n, vc.defs[n])
					body.WriteString(line)
					textSoFar += line
				}
			}
		}
	}
	// Only declare constants that occur in the body (keeps queries small)
	text := body.String()
	var ax strings.Builder
	for _, a := range vc.relevantSpecAxioms(text) {
		fmt.Fprintf(&ax, "(assert %s)\n", a)
	}
	for _, a := range vc.axioms {
		fmt.Fprintf(&ax, "(assert %s)\n", a)
	}
	// wfHeap: every reference stored in the heap is nil or allocated (holds by construction in Go)
	usedNow := usedSymbols(text)
	for _, n := range vc.declOrder {
		if !usedNow[n] {
			continue
		}
		base := n
		if i := strings.LastIndex(n, "@"); i > 0 {
			base = n[:i]
		} else {
			continue
		}
		a, ok := vc.w.heap.arrs[base]
		if !ok || a.RefKind <= 0 {
			continue
		}
		nx, ok := vc.verNext[n]
		if !ok {
			continue
		}
		if a.RefKind == 1 {
			fmt.Fprintf(&ax, "(assert (forall ((r!w Int)) (! (and (<= 0 (select %s r!w)) (< (select %s r!w) %s)) :pattern ((select %s r!w)))))\n", n, n, nx, n)
		} else {
			ks, _ := splitArraySort(strings.TrimSuffix(strings.TrimPrefix(a.Sort, "(Array Int "), ")"))
			fmt.Fprintf(&ax, "(assert (forall ((r!w Int) (k!w %s)) (! (and (<= 0 (select (select %s r!w) k!w)) (< (select (select %s r!w) k!w) %s)) :pattern ((select (select %s r!w) k!w)))))\n", ks, n, n, nx, n)
		}
	}
	gf := vc.w.GlobalFacts()
	for _, n := range vc.declOrder {
		if facts, ok := gf[n]; ok {
			for _, f := range facts {
				fmt.Fprintf(&ax, "(assert %s)\n", f)
			}
		}
	}
	axText := ax.String()
	used := usedSymbols(text + axText)
	var out strings.Builder
	var fd strings.Builder
	for _, n := range vc.funOrder {
		if used[n] {
			fd.WriteString(vc.funDecls[n] + "\n")
		}
	}
	var cd strings.Builder
	for _, n := range vc.declOrder {
		if used[n] {
			fmt.Fprintf(&cd, "(declare-const %s %s)\n", n, vc.decls[n])
		}
	}
	out.WriteString(vc.w.S.Preamble(text + axText + fd.String() + cd.String()))
	out.WriteString(fd.String())
	out.WriteString(cd.String())
	out.WriteString(axText)
	out.WriteString(text)
	out.WriteString("(check-sat)\n")
	return out.String()
}

// groundTerm: every symbol of t in argument position is a declared constant, a literal or a sort name
// (so no quantified or let-bound variable occurs in it).
func (vc *FuncVC) groundTerm(t string) bool {
	start := -1
	for i := 0; i <= len(t); i++ {
		var c byte = ' '
		if i < len(t) {
			c = t[i]
		}
		if c == ' ' || c == '(' || c == ')' || c == '\n' || c == '\t' {
			if start >= 0 {
				tok := t[start:i]
				head := start > 0 && t[start-1] == '('
				if !head {
					_, declared := vc.decls[tok]
					switch {
					case declared, tok == "true", tok == "false", tok == "as", tok == "const":
					case tok[0] >= '0' && tok[0] <= '9':
					case tok[0] >= 'A' && tok[0] <= 'Z' && !strings.Contains(tok, "!"):
					default:
						return false
					}
				}
				start = -1
			}
		} else if start < 0 {
			start = i
		}
	}
	return true
}

// defConst returns a constant defined to equal the ground term t (one constant per distinct term).
func (vc *FuncVC) defConst(prefix, sort, t string) string {
	if n, ok := vc.defByTerm[t]; ok {
		return n
	}
	n := vc.freshConst(prefix, sort)
	vc.defs[n] = t
	vc.defByTerm[t] = n
	vc.defOrder = append(vc.defOrder, n)
	return n
}

func usedSymbols(text string) map[string]bool {
	used := map[string]bool{}
	start := -1
	for i := 0; i <= len(text); i++ {
		var c byte = ' '
		if i < len(text) {
			c = text[i]
		}
		if c == ' ' || c == '(' || c == ')' || c == '\n' || c == '\t' {
			if start >= 0 {
				used[text[start:i]] = true
				start = -1
			}
		} else if start < 0 {
			start = i
		}
	}
	return used
}

func (vc *FuncVC) sortedDecls() []string {
	var ns []string
	for n := range vc.decls {
		ns = append(ns, n)
	}
	sort.Strings(ns)
	return ns
}

// specAxioms evaluates the global (heap-independent) axioms of the spec files once per VC.
func (vc *FuncVC) specAxiomTerms() []string {
	if vc.specAx != nil {
		return vc.specAx
	}
	vc.specAx = []string{}
	for _, ax := range vc.w.Specs.Axioms {
		env := &Env{w: vc.w, vc: vc, cur: &HeapState{vers: map[string]string{}, next: "next@0"}, vars: map[string]binding{},
			ctx: vc.w.ctxFor(ax.PkgPath, ax.File)}
		t, _ := env.Eval(ax.E)
		vc.specAx = append(vc.specAx, t)
	}
	return vc.specAx
}

// relevantSpecAxioms keeps the axioms that share an uninterpreted function symbol with the query (closure).
func (vc *FuncVC) relevantSpecAxioms(text string) []string {
	all := vc.specAxiomTerms()
	used := usedSymbols(text)
	ufuns := map[string]bool{}
	for _, fd := range vc.w.Specs.Funs {
		if fd.Body == nil {
			ufuns[fd.Name] = true
		}
	}
	included := make([]bool, len(all))
	var out []string
	for changed := true; changed; {
		changed = false
		for i, a := range all {
			if included[i] {
				continue
			}
			syms := usedSymbols(a)
			hit := false
			for s := range syms {
				if ufuns[s] && used[s] {
					hit = true
					break
				}
			}
			if hit {
				included[i] = true
				changed = true
				out = append(out, a)
				for s := range syms {
					used[s] = true
				}
			}
		}
	}
	return out
}

// hintAllows: label l is named by the hint set, literally or by an entry with '*' wildcards.
func hintAllows(h map[string]bool, l string) bool {
	if h[l] {
		return true
	}
	for k := range h {
		if strings.Contains(k, "*") {
			if ok, _ := path.Match(k, l); ok {
				return true
			}
		}
	}
	return false
}

// declareSpecFun declares the SMT function of a body-less specification function (by name).
func (vc *FuncVC) declareSpecFun(w *World, name string) {
	fd := w.Specs.Funs[name]
	if fd == nil {
		panic("unknown specification function " + name)
	}
	fctx := w.ctxFor(fd.pkgOf(), fd.File)
	var sorts []string
	for _, p := range fd.Params {
		sorts = append(sorts, w.resolveType(p.Type, fctx).Sort(w.S))
	}
	vc.declareFun(fd.Name, sorts, w.resolveType(fd.Ret, fctx).Sort(w.S))
}
