package main

import (
	"fmt"
	"go/ast"
	"go/constant"
	"go/token"
	"go/types"
	"sort"
	"strings"

	"golang.org/x/tools/go/ssa"
)

// ---------- paths (translation-time pointers) ----------

type stepKind int

const (
	stField stepKind = iota
	stIndex
)

type Step struct {
	kind  stepKind
	field int
	ctype types.Type // container type: struct type for field, slice/array type for index
	index string
}

type Path struct {
	local  *ssa.Alloc // base: non-heap local
	tmp    string     // base: temporary value (no origin); stores are lost
	tmpT   types.Type
	ref    string     // base: heap ref term
	refT   types.Type // pointee type of ref
	global *ssa.Global
	steps  []Step
}

func (p *Path) extend(s Step) *Path {
	n := *p
	n.steps = append(append([]Step{}, p.steps...), s)
	return &n
}

// ---------- translator state ----------

type State struct {
	pc      string
	pcHasOb bool
	locals  map[*ssa.Alloc]string
	heap    *HeapState
	iters   map[*ssa.Range]string
}

func (s *State) clone() *State {
	n := &State{pc: s.pc, pcHasOb: s.pcHasOb, locals: make(map[*ssa.Alloc]string, len(s.locals)),
		heap: s.heap.clone(), iters: make(map[*ssa.Range]string, len(s.iters))}
	for k, v := range s.locals {
		n.locals[k] = v
	}
	for k, v := range s.iters {
		n.iters[k] = v
	}
	return n
}

type edgeIn struct {
	from *ssa.BasicBlock
	st   *State // state at the end of 'from' with pc = edge pc
}

type loopInfo struct {
	header *ssa.BasicBlock
	blocks map[*ssa.BasicBlock]bool
	n      int // ordinal in source
	spec   *LoopSpec
	entry  *State // state at loop entry (after join, before havoc)
	pos    token.Pos
}

type Translator struct {
	w      *World
	fn     *ssa.Function
	vc     *FuncVC
	spec   *FuncSpec
	ctx    *ResCtx
	vals   map[ssa.Value]string
	tuples map[ssa.Value][]string
	paths  map[ssa.Value]*Path
	origin map[ssa.Value]*Path // where a loaded slice/array/struct value came from
	constLen map[ssa.Value]int
	closures map[ssa.Value]*ssa.Function
	params map[string]binding
	entry  *State
	incoming map[*ssa.BasicBlock][]edgeIn
	loops  map[*ssa.BasicBlock]*loopInfo
	inLoops map[*ssa.BasicBlock][]*loopInfo
	resultNames []string
	safetyTags []string
	short  string
	rangeOfNext map[*ssa.BasicBlock]*ssa.Range
	interiorLocals map[*ssa.Alloc]bool // locals that are assigned the address of a field or element somewhere
	rangeDom0   map[*ssa.Range]string // domain of the ranged map when the range statement started
	rangeBound  map[*ssa.Range]int    // 0 unknown, 1 = no call in the loop can add keys to the ranged map's type, 2 = may
	parent  *Translator
	callOrd map[*ssa.Call]int
	bodyLocals bool // ghost assertions inside a loop body may name the body's own locals
	noSafety bool
	noSafetyNoted bool
	curCall int
	curCallOrd int // ordinal of the call being translated (only when the contract has hints)
	rets    []retEdge
	notesUp []string
}

func (t *Translator) S() *Sorts { return t.w.S }

// ---------- obligations & assumptions ----------

func (t *Translator) assume(st *State, f string) {
	if st.pcHasOb {
		npc := t.vc.newPC("s", st.pc)
		t.vc.assume(npc, st.pc)
		st.pc = npc
		st.pcHasOb = false
	}
	t.vc.assume(st.pc, f)
}

// assumeL is assume with a label that `hint` directives can name.
func (t *Translator) assumeL(st *State, f, label string) {
	t.assume(st, f)
	if f != "true" && label != "" {
		t.vc.consLabel[st.pc+"\x00"+f] = label
	}
}

func (t *Translator) oblige(st *State, kind, label string, tags []string, goal, pos, src string) {
	name := t.short + "#" + kind
	if label != "" {
		name += "." + label
	}
	// make unique
	base := name
	for i := 2; ; i++ {
		dup := false
		for _, o := range t.vc.obs {
			if o.Name == name {
				dup = true
				break
			}
		}
		if !dup {
			break
		}
		name = fmt.Sprintf("%s~%d", base, i)
	}
	ob := &Obligation{Name: name, Kind: kind, Tags: tags, PC: st.pc, Goal: goal, Pos: pos, Src: src, Func: t.short, vc: t.vc}
	t.vc.obs = append(t.vc.obs, ob)
	st.pcHasOb = true
	// assert-then-assume
	al := label
	if strings.HasPrefix(kind, "loop") {
		al = "inv." + label
	}
	t.assumeL(st, goal, al)
	// proof hints: restrict the quantified hypotheses of this obligation to the named ones
	if t.spec != nil && t.parent == nil {
		suffix := kind
		if label != "" {
			suffix += "." + label
		}
		if hs, ok := t.spec.Hints[suffix]; ok {
			ob.Hints = hs
		}
	}
}

func (t *Translator) safety(st *State, what string, goal string, pos token.Pos, expr string) {
	if goal == "true" || t.noSafety {
		return
	}
	if root := t.root(); root.spec != nil && root.spec.NoSafety {
		if !root.noSafetyNoted {
			root.noSafetyNoted = true
			t.vc.note("panic-freedom of the body of %s and the preconditions of its callees are not checked (contract marked nosafety)", root.short)
		}
		return
	}
	t.oblige(st, "safety."+what, expr, t.safetyTags, goal, t.w.pos(pos), expr)
}

// ---------- typing facts ----------

func intRange(b *types.Basic) (lo, hi string, ok bool) {
	switch b.Kind() {
	case types.Int8:
		return "(- 128)", "127", true
	case types.Int16:
		return "(- 32768)", "32767", true
	case types.Int32:
		return "(- 2147483648)", "2147483647", true
	case types.Int, types.Int64:
		return "(- 9223372036854775808)", "9223372036854775807", true
	case types.Uint8:
		return "0", "255", true
	case types.Uint16:
		return "0", "65535", true
	case types.Uint32:
		return "0", "4294967295", true
	case types.Uint, types.Uint64, types.Uintptr:
		return "0", "18446744073709551615", true
	}
	return "", "", false
}

// typeFacts returns assumptions that hold of any well-typed value v of type ty in heap h.
func (t *Translator) typeFacts(v string, ty types.Type, h *HeapState) []string {
	ty = types.Unalias(ty)
	switch u := ty.Underlying().(type) {
	case *types.Basic:
		if lo, hi, ok := intRange(u); ok {
			return []string{"(<= " + lo + " " + v + ")", "(<= " + v + " " + hi + ")"}
		}
	case *types.Pointer, *types.Map:
		return []string{"(<= 0 " + v + ")", "(< " + v + " " + h.next + ")"}
	case *types.Slice:
		so := t.S().SortOf(ty)
		return []string{"(>= " + slLen(so, v) + " 0)", "(=> " + slNil(so, v) + " (= " + slLen(so, v) + " 0))"}
	case *types.Interface:
		return []string{"(<= 0 (itag " + v + "))", "(=> (= (itag " + v + ") 0) (= (iref " + v + ") 0))"}
	}
	return nil
}

func (t *Translator) assumeTyped(st *State, v string, ty types.Type) {
	for _, f := range t.typeFacts(v, ty, st.heap) {
		t.assume(st, f)
	}
}

// ---------- heap access ----------

func (t *Translator) arrTerm(a *ArrInfo, h *HeapState) string {
	if v, ok := h.vers[a.Name]; ok {
		return v
	}
	v := a.Name + "@0"
	t.vc.declare(v, a.Sort)
	t.vc.verNext[v] = "next@0"
	return v
}

func (t *Translator) setArr(st *State, a *ArrInfo, term string) {
	// name the new version to keep terms small
	n := fmt.Sprintf("%s@%d", a.Name, t.vc.fresh())
	t.vc.declare(n, a.Sort)
	t.assume(st, "(= "+n+" "+term+")")
	st.heap.vers[a.Name] = n
	t.vc.verNext[n] = st.heap.next
}

func (t *Translator) havocArr(st *State, a *ArrInfo) string {
	n := fmt.Sprintf("%s@%d", a.Name, t.vc.fresh())
	t.vc.declare(n, a.Sort)
	st.heap.vers[a.Name] = n
	return n
}

func (t *Translator) globalArr(g *ssa.Global) *ArrInfo {
	elem := g.Type().(*types.Pointer).Elem()
	return t.w.heapArr("glob!"+sanitize(g.Pkg.Pkg.Name()+"."+g.Name()), t.S().SortOf(elem))
}

func (t *Translator) usedFieldIdxs(st types.Type) []int {
	si := t.S().structInfo(st)
	return sortedKeys(si.Fields)
}

// getStep / setStep on values
func (t *Translator) getStep(v string, s Step) string {
	switch s.kind {
	case stField:
		return t.S().GetField(s.ctype, s.field, v)
	default:
		switch s.ctype.Underlying().(type) {
		case *types.Slice:
			return "(select " + slArr(t.S().SortOf(s.ctype), v) + " " + s.index + ")"
		default:
			return "(select " + v + " " + s.index + ")"
		}
	}
}

func (t *Translator) setSteps(v string, steps []Step, nv string) string {
	if len(steps) == 0 {
		return nv
	}
	s := steps[0]
	inner := t.setSteps(t.getStep(v, s), steps[1:], nv)
	switch s.kind {
	case stField:
		return t.S().SetField(s.ctype, s.field, v, inner)
	default:
		switch s.ctype.Underlying().(type) {
		case *types.Slice:
			so := t.S().SortOf(s.ctype)
			return slMk(so, "(store "+slArr(so, v)+" "+s.index+" "+inner+")", slLen(so, v), slNil(so, v))
		default:
			return "(store " + v + " " + s.index + " " + inner + ")"
		}
	}
}

func (t *Translator) pathType(p *Path) types.Type {
	var ty types.Type
	switch {
	case p.local != nil:
		ty = p.local.Type().(*types.Pointer).Elem()
	case p.global != nil:
		ty = p.global.Type().(*types.Pointer).Elem()
	case p.tmp != "":
		ty = p.tmpT
	default:
		ty = p.refT
	}
	for _, s := range p.steps {
		switch s.kind {
		case stField:
			ty = s.ctype.Underlying().(*types.Struct).Field(s.field).Type()
		default:
			switch u := s.ctype.Underlying().(type) {
			case *types.Slice:
				ty = u.Elem()
			case *types.Array:
				ty = u.Elem()
			}
		}
	}
	return ty
}

// loadPath reads the value at a path.
func (t *Translator) loadPath(st *State, p *Path, pos token.Pos) string {
	var v string
	steps := p.steps
	switch {
	case p.local != nil:
		var ok bool
		v, ok = st.locals[p.local]
		if !ok {
			v = t.S().Zero(p.local.Type().(*types.Pointer).Elem())
			st.locals[p.local] = v
		}
	case p.tmp != "":
		v = p.tmp
	case p.global != nil:
		v = t.arrTerm(t.globalArr(p.global), st.heap)
		if p.global.Pkg != nil && !isRepoPkg(p.global.Pkg.Pkg.Path()) && len(p.steps) == 0 {
			// A-ext: package-level singletons of dependencies (e.g. runtime.DefaultUnstructuredConverter) are initialised
			switch p.global.Type().(*types.Pointer).Elem().Underlying().(type) {
			case *types.Interface:
				t.assume(st, "(not (= (itag "+v+") 0))")
				t.vc.note("A-ext: external package variable %s assumed initialised (non-nil)", p.global.String())
			case *types.Pointer:
				t.assume(st, "(not (= "+v+" 0))")
				t.vc.note("A-ext: external package variable %s assumed initialised (non-nil)", p.global.String())
			}
		}
	default:
		t.safety(st, "nilderef", "(not (= "+p.ref+" 0))", pos, "nil")
		if _, isStruct := p.refT.Underlying().(*types.Struct); isStruct {
			if len(steps) > 0 && steps[0].kind == stField {
				a := t.w.fieldArr(p.refT, steps[0].field)
				v = "(select " + t.arrTerm(a, st.heap) + " " + p.ref + ")"
				steps = steps[1:]
			} else {
				// whole-struct load
				v = t.S().Zero(p.refT)
				for _, i := range t.usedFieldIdxs(p.refT) {
					a := t.w.fieldArr(p.refT, i)
					v = t.S().SetField(p.refT, i, v, "(select "+t.arrTerm(a, st.heap)+" "+p.ref+")")
				}
			}
		} else {
			a := t.w.boxArr(p.refT)
			v = "(select " + t.arrTerm(a, st.heap) + " " + p.ref + ")"
		}
	}
	for _, s := range steps {
		v = t.getStep(v, s)
	}
	return v
}

func (t *Translator) storePath(st *State, p *Path, nv string, pos token.Pos) {
	switch {
	case p.local != nil:
		cur, ok := st.locals[p.local]
		if !ok {
			cur = t.S().Zero(p.local.Type().(*types.Pointer).Elem())
		}
		val := t.setSteps(cur, p.steps, nv)
		if len(val) > 60 {
			n := t.vc.freshConst("l!"+sanitize(p.local.Comment), t.S().SortOf(p.local.Type().(*types.Pointer).Elem()))
			t.assume(st, "(= "+n+" "+val+")")
			val = n
		}
		st.locals[p.local] = val
	case p.tmp != "":
		t.vc.unsupportedf("store through a slice/struct value without known origin in %s at %s", t.short, t.w.pos(pos))
	case p.global != nil:
		a := t.globalArr(p.global)
		t.setArr(st, a, t.setSteps(t.arrTerm(a, st.heap), p.steps, nv))
	default:
		if _, boxed := t.vc.copyIns[p.ref]; boxed && pos != token.NoPos {
			// the copy-in model of an escaped interior pointer is read-only: a write would not reach the enclosing object
			t.vc.unsupportedf("write through an interior pointer held in a variable in %s at %s", t.short, t.w.pos(pos))
		}
		t.safety(st, "nilderef", "(not (= "+p.ref+" 0))", pos, "nil")
		if _, isStruct := p.refT.Underlying().(*types.Struct); isStruct {
			if len(p.steps) > 0 && p.steps[0].kind == stField {
				a := t.w.fieldArr(p.refT, p.steps[0].field)
				arr := t.arrTerm(a, st.heap)
				cur := "(select " + arr + " " + p.ref + ")"
				t.setArr(st, a, "(store "+arr+" "+p.ref+" "+t.setSteps(cur, p.steps[1:], nv)+")")
			} else {
				// whole-struct store
				for _, i := range t.usedFieldIdxs(p.refT) {
					a := t.w.fieldArr(p.refT, i)
					arr := t.arrTerm(a, st.heap)
					t.setArr(st, a, "(store "+arr+" "+p.ref+" "+t.S().GetField(p.refT, i, nv)+")")
				}
			}
		} else {
			a := t.w.boxArr(p.refT)
			arr := t.arrTerm(a, st.heap)
			cur := "(select " + arr + " " + p.ref + ")"
			t.setArr(st, a, "(store "+arr+" "+p.ref+" "+t.setSteps(cur, p.steps, nv)+")")
		}
	}
}

// stampVersions records, for heap array versions created by a havoc (call, loop head, join), the allocation
// counter of the state they belong to (used for the wfHeap facts).
func (t *Translator) stampVersions(st *State) {
	for _, v := range st.heap.vers {
		if _, ok := t.vc.verNext[v]; !ok {
			t.vc.verNext[v] = st.heap.next
		}
	}
}

// allocRef allocates a fresh object and returns its ref.
func (t *Translator) allocRef(st *State) string {
	r := t.vc.freshConst("new", "Int")
	t.assume(st, "(= "+r+" "+st.heap.next+")")
	n := t.vc.freshConst("next", "Int")
	t.assume(st, "(= "+n+" (+ "+st.heap.next+" 1))")
	st.heap.next = n
	return r
}

// ---------- values ----------

func constIntString(c *ssa.Const) string {
	s := c.Value.ExactString()
	if strings.HasPrefix(s, "-") {
		return "(- " + s[1:] + ")"
	}
	return s
}

func (t *Translator) val(st *State, v ssa.Value) string {
	switch v := v.(type) {
	case *ssa.Const:
		if v.Value == nil {
			return t.S().Zero(v.Type())
		}
		switch v.Value.Kind() {
		case constant.Bool:
			return fmt.Sprint(constant.BoolVal(v.Value))
		case constant.Int:
			return constIntString(v)
		case constant.String:
			return t.S().StrLit(constant.StringVal(v.Value))
		case constant.Float:
			return "0.0"
		}
		return t.S().Zero(v.Type())
	case *ssa.Parameter:
		return t.vals[v]
	case *ssa.FreeVar:
		if s, ok := t.vals[v]; ok {
			return s
		}
		n := "fv!" + sanitize(v.Name())
		t.vc.declare(n, "Int")
		t.vals[v] = n
		return n
	case *ssa.Function:
		n := "fn!" + sanitize(v.String())
		t.vc.declare(n, "Int")
		return n
	case *ssa.Global:
		// pointer to global used as a value
		return t.refOf(st, v)
	}
	if s, ok := t.vals[v]; ok {
		return s
	}
	if _, ok := t.paths[v]; ok {
		return t.refOf(st, v)
	}
	panic(fmt.Sprintf("no value for %s (%T) in %s", v.Name(), v, t.short))
}

// pathOf returns the path a pointer-typed value denotes.
func (t *Translator) pathOf(st *State, v ssa.Value) *Path {
	if p, ok := t.paths[v]; ok {
		return p
	}
	if g, ok := v.(*ssa.Global); ok {
		return &Path{global: g}
	}
	elem := v.Type().Underlying().(*types.Pointer).Elem()
	return &Path{ref: t.val(st, v), refT: elem}
}

// refOf turns a pointer-typed value into a Ref term (boxing interior pointers).
func (t *Translator) refOf(st *State, v ssa.Value) string {
	p, ok := t.paths[v]
	if !ok {
		if g, isG := v.(*ssa.Global); isG {
			p = &Path{global: g}
		} else {
			return t.val(st, v)
		}
	}
	if p.ref != "" && len(p.steps) == 0 {
		return p.ref
	}
	// interior pointer escapes: box a copy (copy-in only)
	ty := t.pathType(p)
	t.vc.note("interior pointer to %s escapes in %s (modelled by copy-in to a fresh object)", ty.String(), t.short)
	cur := t.loadPath(st, p, token.NoPos)
	r := t.allocRef(st)
	np := &Path{ref: r, refT: ty}
	t.storePath(st, np, cur, token.NoPos)
	if t.vc.copyIns == nil {
		t.vc.copyIns = map[string]types.Type{}
	}
	t.vc.copyIns[r] = ty
	return r
}

// ---------- function setup ----------

func (t *Translator) paramName(p *ssa.Parameter) string { return "p!" + sanitize(p.Name()) }

type VerifyOpts struct {
	SafetyTags []string
}

func (w *World) shortName(fn *ssa.Function) string { return shortFuncName(fn) }

// TranslateFunction builds the VC for fn under its contract (spec may be nil).
func (w *World) TranslateFunction(fn *ssa.Function, opts VerifyOpts) (vc *FuncVC, err error) {
	short := shortFuncName(fn)
	vc = NewFuncVC(w, short)
	defer func() {
		if r := recover(); r != nil {
			err = fmt.Errorf("%s: %v", short, r)
		}
	}()
	spec := w.specFor(fn)
	t := &Translator{w: w, fn: fn, vc: vc, spec: spec, short: short,
		vals: map[ssa.Value]string{}, tuples: map[ssa.Value][]string{}, paths: map[ssa.Value]*Path{},
		origin: map[ssa.Value]*Path{}, constLen: map[ssa.Value]int{}, closures: map[ssa.Value]*ssa.Function{},
		params: map[string]binding{}, incoming: map[*ssa.BasicBlock][]edgeIn{}, safetyTags: opts.SafetyTags,
		rangeOfNext: map[*ssa.BasicBlock]*ssa.Range{}}
	pkgPath := fn.Pkg.Pkg.Path()
	file := ""
	vc.homePkg = pkgPath
	if spec != nil {
		file = spec.File
		spec.Used = true
		for _, r := range spec.Reveal {
			vc.reveal[r] = true
		}
		for _, r := range spec.Hide {
			vc.hide[r] = true
		}
	}
	t.ctx = w.ctxFor(pkgPath, file)
	t.run()
	return vc, nil
}

func (t *Translator) env(st *State, old *HeapState, extra map[string]binding) *Env {
	vars := map[string]binding{}
	for k, v := range t.params {
		vars[k] = v
	}
	for k, v := range extra {
		vars[k] = v
	}
	return &Env{w: t.w, vc: t.vc, cur: st.heap, old: old, vars: vars, ctx: t.ctx}
}

func (t *Translator) run() {
	fn := t.fn
	vc := t.vc
	root := vc.newPC("entry")
	next0 := "next@0"
	vc.declare(next0, "Int")
	st := &State{pc: root, locals: map[*ssa.Alloc]string{}, heap: &HeapState{vers: map[string]string{}, next: next0},
		iters: map[*ssa.Range]string{}}
	t.assume(st, "(>= "+next0+" 1)")
	for _, p := range fn.Params {
		n := t.paramName(p)
		vc.declare(n, t.S().SortOf(p.Type()))
		t.vals[p] = n
		t.params[p.Name()] = binding{term: n, typ: &SType{Go: p.Type()}}
		t.assumeTyped(st, n, p.Type())
	}
	for _, fv := range fn.FreeVars {
		n := "fv!" + sanitize(fv.Name())
		vc.declare(n, "Int")
		t.vals[fv] = n
		t.assume(st, "(< 0 "+n+")")
		t.assume(st, "(< "+n+" "+next0+")")
		// expose captured variable by name: its value lives in the box array
		elem := fv.Type().(*types.Pointer).Elem()
		t.params[fv.Name()] = binding{n, &SType{Go: elem}, elem}
	}
	t.entry = st.clone()
	// result names
	res := fn.Signature.Results()
	for i := 0; i < res.Len(); i++ {
		name := res.At(i).Name()
		if name == "" || name == "_" {
			if res.Len() == 1 {
				name = "res"
			} else {
				name = fmt.Sprintf("res%d", i)
			}
		}
		t.resultNames = append(t.resultNames, name)
	}
	// preconditions
	if t.spec != nil {
		for _, c := range t.spec.Requires {
			f, _ := t.env(st, st.heap, nil).Eval(c.E)
			t.assumeL(st, f, "requires")
		}
	}
	if t.spec != nil && t.spec.SortSlice != nil && len(fn.Params) >= 2 {
		// A-sort: the comparator is only called with in-range indices of the slice being sorted
		env := t.env(st, st.heap, nil)
		sl, sty := env.Eval(t.spec.SortSlice)
		so := t.S().SortOf(sty.Go)
		for _, p := range fn.Params[:2] {
			n := t.vals[p]
			t.assume(st, "(and (<= 0 "+n+") (< "+n+" "+slLen(so, sl)+"))")
		}
	}
	if t.parent == nil {
		epc := vc.newPC("pre", st.pc)
		vc.assume(epc, st.pc)
		st.pc = epc
		st.pcHasOb = false
		vc.entryPC = epc
	}
	// cover: preconditions satisfiable
	if t.spec != nil && len(t.spec.Requires) > 0 {
		ob := &Obligation{Name: t.short + "#cover.requires", Kind: "cover", PC: st.pc, Goal: "true", Cover: true, Func: t.short,
			Pos: t.w.pos(fn.Pos()), vc: t.vc}
		t.vc.obs = append(t.vc.obs, ob)
		st.pcHasOb = true
	}
	t.findLoops()
	// process blocks in topological order ignoring back edges
	order := t.topoOrder()
	t.incoming[fn.Blocks[0]] = []edgeIn{{nil, st}}
	for _, b := range order {
		ins := t.incoming[b]
		if len(ins) == 0 {
			continue // unreachable
		}
		var cur *State
		if li, ok := t.loops[b]; ok {
			cur = t.enterLoop(li, ins)
		} else {
			cur = t.join(b, ins)
		}
		t.stampVersions(cur)
		t.block(b, cur)
	}
}

// ---------- CFG helpers ----------

func (t *Translator) isBackEdge(from, to *ssa.BasicBlock) bool {
	return to.Dominates(from)
}

func (t *Translator) topoOrder() []*ssa.BasicBlock {
	var order []*ssa.BasicBlock
	state := map[*ssa.BasicBlock]int{}
	var visit func(b *ssa.BasicBlock)
	visit = func(b *ssa.BasicBlock) {
		if state[b] != 0 {
			return
		}
		state[b] = 1
		for _, s := range b.Succs {
			if t.isBackEdge(b, s) {
				continue
			}
			visit(s)
		}
		state[b] = 2
		order = append(order, b)
	}
	visit(t.fn.Blocks[0])
	for i, j := 0, len(order)-1; i < j; i, j = i+1, j-1 {
		order[i], order[j] = order[j], order[i]
	}
	return order
}

func (t *Translator) findLoops() {
	t.loops = map[*ssa.BasicBlock]*loopInfo{}
	t.inLoops = map[*ssa.BasicBlock][]*loopInfo{}
	for _, b := range t.fn.Blocks {
		for _, s := range b.Succs {
			if t.isBackEdge(b, s) {
				li := t.loops[s]
				if li == nil {
					li = &loopInfo{header: s, blocks: map[*ssa.BasicBlock]bool{s: true}}
					t.loops[s] = li
				}
				// natural loop: blocks that reach b without passing through s
				var stack []*ssa.BasicBlock
				if !li.blocks[b] {
					li.blocks[b] = true
					stack = append(stack, b)
				}
				for len(stack) > 0 {
					x := stack[len(stack)-1]
					stack = stack[:len(stack)-1]
					for _, p := range x.Preds {
						if !li.blocks[p] {
							li.blocks[p] = true
							stack = append(stack, p)
						}
					}
				}
			}
		}
	}
	// ordinals by source order of loop statements
	var stmts []ast.Node
	if syn := t.fn.Syntax(); syn != nil {
		ast.Inspect(syn, func(n ast.Node) bool {
			switch n := n.(type) {
			case *ast.FuncLit:
				if n != syn {
					return false
				}
			case *ast.ForStmt, *ast.RangeStmt:
				stmts = append(stmts, n)
			}
			return true
		})
	}
	for _, li := range t.loops {
		// smallest stmt containing all positions of instructions in loop blocks
		var lo, hi token.Pos
		for b := range li.blocks {
			for _, in := range b.Instrs {
				if _, isDbg := in.(*ssa.DebugRef); isDbg {
					continue
				}
				p := in.Pos()
				if !p.IsValid() {
					continue
				}
				if lo == 0 || p < lo {
					lo = p
				}
				if p > hi {
					hi = p
				}
			}
		}
		best := -1
		for i, s := range stmts {
			if s.Pos() <= lo && hi <= s.End() {
				if best < 0 || (stmts[best].End()-stmts[best].Pos()) > (s.End()-s.Pos()) {
					best = i
				}
			}
		}
		li.n = best + 1
		if best >= 0 {
			li.pos = stmts[best].Pos()
		}
		if t.spec != nil && li.n > 0 {
			li.spec = t.spec.Loops[li.n]
		}
		for b := range li.blocks {
			t.inLoops[b] = append(t.inLoops[b], li)
		}
	}
	for _, b := range t.fn.Blocks {
		for _, in := range b.Instrs {
			if nx, ok := in.(*ssa.Next); ok {
				if r, ok := nx.Iter.(*ssa.Range); ok {
					t.rangeOfNext[b] = r
				}
			}
			// variables that may hold an interior pointer (address of a field or element)
			if s, ok := in.(*ssa.Store); ok {
				switch s.Val.(type) {
				case *ssa.FieldAddr, *ssa.IndexAddr:
					if a, isLocal := s.Addr.(*ssa.Alloc); isLocal {
						if t.interiorLocals == nil {
							t.interiorLocals = map[*ssa.Alloc]bool{}
						}
						t.interiorLocals[a] = true
					}
				}
			}
		}
	}
}

// join merges incoming edge states into one state for block b.
func (t *Translator) join(b *ssa.BasicBlock, ins []edgeIn) *State {
	if len(ins) == 1 {
		return ins[0].st
	}
	vc := t.vc
	var parents []string
	for _, e := range ins {
		parents = append(parents, e.st.pc)
	}
	pc := vc.newPC(fmt.Sprintf("b%d", b.Index), parents...)
	vc.joins[pc] = parents
	out := ins[0].st.clone()
	out.pc = pc
	out.pcHasOb = false
	// locals
	localKeys := map[*ssa.Alloc]bool{}
	for _, e := range ins {
		for k := range e.st.locals {
			localKeys[k] = true
		}
	}
	var lk []*ssa.Alloc
	for k := range localKeys {
		lk = append(lk, k)
	}
	sort.Slice(lk, func(i, j int) bool { return allocKey(lk[i]) < allocKey(lk[j]) })
	for _, k := range lk {
		same := true
		first, ok0 := ins[0].st.locals[k]
		for _, e := range ins {
			v, ok := e.st.locals[k]
			if ok != ok0 || v != first {
				same = false
			}
		}
		if same {
			continue
		}
		sortN := t.S().SortOf(k.Type().(*types.Pointer).Elem())
		n := vc.freshConst("j!"+sanitize(k.Comment), sortN)
		for _, e := range ins {
			v, ok := e.st.locals[k]
			if !ok {
				continue // not yet allocated on that path: value irrelevant
			}
			if ty, boxed := vc.copyIns[v]; boxed {
				vc.copyIns[n] = ty // the variable may hold a boxed interior pointer
			}
			vc.assume(e.st.pc, "(= "+n+" "+v+")")
		}
		out.locals[k] = n
	}
	// heap arrays
	arrKeys := map[string]bool{}
	for _, e := range ins {
		for k := range e.st.heap.vers {
			arrKeys[k] = true
		}
	}
	var ak []string
	for k := range arrKeys {
		ak = append(ak, k)
	}
	sort.Strings(ak)
	for _, k := range ak {
		a := t.w.heap.arrs[k]
		same := true
		first := t.arrTerm(a, ins[0].st.heap)
		for _, e := range ins {
			if t.arrTerm(a, e.st.heap) != first {
				same = false
			}
		}
		if same {
			continue
		}
		n := fmt.Sprintf("%s@%d", a.Name, vc.fresh())
		vc.declare(n, a.Sort)
		for _, e := range ins {
			vc.assume(e.st.pc, "(= "+n+" "+t.arrTerm(a, e.st.heap)+")")
		}
		out.heap.vers[k] = n
	}
	// next
	sameNext := true
	for _, e := range ins {
		if e.st.heap.next != ins[0].st.heap.next {
			sameNext = false
		}
	}
	if !sameNext {
		n := vc.freshConst("next", "Int")
		for _, e := range ins {
			vc.assume(e.st.pc, "(= "+n+" "+e.st.heap.next+")")
		}
		out.heap.next = n
	}
	// iterators
	var iterKeys []*ssa.Range
	for r := range out.iters {
		iterKeys = append(iterKeys, r)
	}
	sort.Slice(iterKeys, func(i, j int) bool { return valueKey(iterKeys[i]) < valueKey(iterKeys[j]) })
	for _, r := range iterKeys {
		same := true
		for _, e := range ins {
			if e.st.iters[r] != out.iters[r] {
				same = false
			}
		}
		if !same {
			ks := t.S().SortOf(r.X.Type().Underlying().(*types.Map).Key())
			n := vc.freshConst("seen", "(Array "+ks+" Bool)")
			for _, e := range ins {
				if v, ok := e.st.iters[r]; ok {
					vc.assume(e.st.pc, "(= "+n+" "+v+")")
				}
			}
			out.iters[r] = n
		}
	}
	return out
}

// loopTargets computes what a loop may modify.
func (t *Translator) loopTargets(li *loopInfo) (locals []*ssa.Alloc, arrs []*ArrInfo, all bool, iters []*ssa.Range, allocs bool) {
	ws := newWriteSet()
	cws := newWriteSet() // what calls inside the loop may write
	defer func() {
		if r := t.rangeOfNext[li.header]; r != nil {
			if mt, ok := r.X.Type().Underlying().(*types.Map); ok {
				if t.rangeBound == nil {
					t.rangeBound = map[*ssa.Range]int{}
				}
				md, _ := t.w.mapArrs(mt)
				t.rangeBound[r] = 1
				if cws.all || cws.arrs[md.Name] {
					t.rangeBound[r] = 2
				}
			}
		}
	}()
	lset := map[*ssa.Alloc]bool{}
	for b := range li.blocks {
		for _, in := range b.Instrs {
			switch in := in.(type) {
			case *ssa.Store:
				if a := rootLocal(in.Addr); a != nil {
					lset[a] = true
				}
			case *ssa.Next:
				if r, ok := in.Iter.(*ssa.Range); ok {
					iters = append(iters, r)
				}
			case *ssa.Alloc:
				if in.Heap {
					allocs = true
				} else {
					lset[in] = true
				}
			case *ssa.MakeMap, *ssa.MakeSlice, *ssa.MakeInterface, *ssa.MakeClosure:
				allocs = true
			case ssa.CallInstruction:
				allocs = true
				t.w.instrWrites(t.fn, in, cws)
			}
			t.w.instrWrites(t.fn, in, ws)
		}
	}
	for a := range lset {
		locals = append(locals, a)
	}
	sort.Slice(locals, func(i, j int) bool { return allocKey(locals[i]) < allocKey(locals[j]) })
	for _, n := range ws.sorted() {
		arrs = append(arrs, t.w.heap.arrs[n])
	}
	return locals, arrs, ws.all, iters, allocs
}

func rootLocal(addr ssa.Value) *ssa.Alloc {
	for {
		switch a := addr.(type) {
		case *ssa.Alloc:
			if !a.Heap {
				return a
			}
			return nil
		case *ssa.FieldAddr:
			addr = a.X
		case *ssa.IndexAddr:
			if _, isPtr := a.X.Type().Underlying().(*types.Pointer); isPtr {
				addr = a.X
			} else {
				// index into slice value: origin of the slice
				if u, ok := a.X.(*ssa.UnOp); ok && u.Op == token.MUL {
					addr = u.X
				} else {
					return nil
				}
			}
		default:
			return nil
		}
	}
}

func (t *Translator) invEnv(st *State, li *loopInfo) *Env {
	// locals by name (allocs not defined inside the loop), then params
	vars := map[string]binding{}
	for k, v := range t.params {
		vars[k] = v
	}
	type cand struct {
		a   *ssa.Alloc
		pos token.Pos
	}
	byName := map[string][]cand{}
	for _, b := range t.fn.Blocks {
		for _, in := range b.Instrs {
			if a, ok := in.(*ssa.Alloc); ok && !a.Heap && a.Comment != "" {
				if li != nil && li.blocks[b] && b != li.header && !t.bodyLocals {
					continue
				}
				byName[a.Comment] = append(byName[a.Comment], cand{a, a.Pos()})
			}
		}
	}
	hpos := token.NoPos
	if li != nil {
		for b := range li.blocks {
			for _, in := range b.Instrs {
				if p := in.Pos(); p.IsValid() && (hpos == 0 || p < hpos) {
					hpos = p
				}
			}
		}
	}
	for name, cs := range byName {
		var best *ssa.Alloc
		for _, c := range cs {
			if _, live := st.locals[c.a]; !live {
				continue
			}
			if best == nil || c.pos > best.Pos() {
				if hpos == 0 || !c.pos.IsValid() || c.pos <= hpos || t.bodyLocals {
					best = c.a
				}
			}
		}
		if best != nil {
			vars[name] = binding{term: st.locals[best], typ: &SType{Go: best.Type().(*types.Pointer).Elem()}}
		}
	}
	// named variables that live in the heap (their address is taken somewhere): visible through their current content
	for _, b := range t.fn.Blocks {
		for _, in := range b.Instrs {
			a, ok := in.(*ssa.Alloc)
			if !ok || !a.Heap || a.Comment == "" {
				continue
			}
			if _, taken := vars[a.Comment]; taken {
				continue
			}
			if li != nil && li.blocks[b] && b != li.header && !t.bodyLocals {
				continue
			}
			r, known := t.vals[a]
			if !known {
				continue
			}
			elem := a.Type().(*types.Pointer).Elem()
			func() {
				defer func() { t.noSafety = false; recover() }()
				t.noSafety = true // reading a variable for a specification raises no obligation
				v := t.loadPath(st.clone(), &Path{ref: r, refT: elem}, token.NoPos)
				vars[a.Comment] = binding{term: v, typ: &SType{Go: elem}}
			}()
		}
	}
	// the hidden index of the range loop number N is also visible as rangeindexN (nested slice ranges)
	for _, l2 := range t.loops {
		if l2 == nil || l2.n == 0 {
			continue
		}
		for _, in := range l2.header.Instrs {
			if u, ok := in.(*ssa.UnOp); ok && u.Op == token.MUL {
				if a, isA := u.X.(*ssa.Alloc); isA && a.Comment == "rangeindex" {
					if v, live := st.locals[a]; live {
						vars[fmt.Sprintf("rangeindex%d", l2.n)] = binding{term: v, typ: &SType{Go: a.Type().(*types.Pointer).Elem()}}
					}
				}
			}
		}
	}
	// inside the invariants of a slice-range loop, `rangeindex` is that loop's own hidden index
	if li != nil {
		if v, ok := vars[fmt.Sprintf("rangeindex%d", li.n)]; ok && li.n > 0 {
			vars["rangeindex"] = v
		}
	}
	// heap-allocated named locals (escaping): expose through box
	env := &Env{w: t.w, vc: t.vc, cur: st.heap, old: t.entry.heap, vars: vars, ctx: t.ctx}
	if li != nil {
		if r := t.rangeOfNext[li.header]; r != nil {
			env.seen = st.iters[r]
			if mt, ok := r.X.Type().Underlying().(*types.Map); ok {
				env.seenKey = &SType{Go: mt.Key()}
			}
		}
		if li.entry != nil {
			env.pre = li.entry.heap
		}
		// a loop nested in the only map-range loop of the function: seen(k) speaks about the keys that loop has visited
		if env.seen == "" {
			if only := t.onlyRange(); only != nil && t.rangeOfNext[li.header] == nil {
				if sv, ok := st.iters[only]; ok {
					env.seen = sv
					if mt, isMap := only.X.Type().Underlying().(*types.Map); isMap {
						env.seenKey = &SType{Go: mt.Key()}
					}
				}
			}
		}
	}
	return env
}

// onlyRange returns the map-range of the function if there is exactly one, else nil
func (t *Translator) onlyRange() *ssa.Range {
	var only *ssa.Range
	cnt := 0
	for _, r := range t.rangeOfNext {
		if r != nil && r != only {
			only = r
			cnt++
		}
	}
	if cnt == 1 {
		return only
	}
	return nil
}

func (t *Translator) enterLoop(li *loopInfo, ins []edgeIn) *State {
	var entries []edgeIn
	for _, e := range ins {
		entries = append(entries, e)
	}
	st := t.join(li.header, entries)
	if len(entries) == 1 {
		st = st.clone()
	}
	li.entry = st.clone()
	label := fmt.Sprintf("loop%d", li.n)
	pos := t.w.pos(li.pos)
	// init obligations
	if li.spec != nil {
		env := t.invEnv(st, li)
		for _, c := range li.spec.Invs {
			if c.Free {
				continue
			}
			f, _ := env.Eval(c.E)
			t.oblige(st, label+".init", c.Label, c.Tags, f, pos, c.Src)
		}
	}
	t.implicitFrameCheck(st, label+".init", pos)
	// havoc
	locals, arrs, all, iters, allocs := t.loopTargets(li)
	h := st.clone()
	npc := t.vc.newPC(label, st.pc)
	t.vc.assume(npc, st.pc)
	if li.spec != nil && li.spec.Cut {
		// what was learnt between the entry and this loop is forgotten: the invariants must carry what the loop needs
		t.vc.cutAt[npc] = st.pc
		t.vc.softCut[npc] = true
	}
	h.pc = npc
	h.pcHasOb = false
	for _, a := range locals {
		if _, live := h.locals[a]; !live {
			continue
		}
		elem := a.Type().(*types.Pointer).Elem()
		n := t.vc.freshConst("h!"+sanitize(a.Comment), t.S().SortOf(elem))
		h.locals[a] = n
	}
	if all {
		for _, a := range t.w.heap.arrs {
			t.havocArr(h, a)
		}
	} else {
		for _, a := range arrs {
			t.havocArr(h, a)
		}
	}
	for _, r := range iters {
		if _, ok := h.iters[r]; ok {
			ks := t.S().SortOf(r.X.Type().Underlying().(*types.Map).Key())
			h.iters[r] = t.vc.freshConst("seen", "(Array "+ks+" Bool)")
			// nothing is ever visited when ranging over a nil map (holds in every execution)
			if m, known := t.vals[r.X]; known {
				t.assume(h, "(=> (= "+m+" 0) (= "+h.iters[r]+" ((as const (Array "+ks+" Bool)) false)))")
			}
		}
	}
	if allocs {
		n := t.vc.freshConst("next", "Int")
		t.assume(h, "(>= "+n+" "+st.heap.next+")")
		h.heap.next = n
	}
	for _, a := range locals {
		if v, live := h.locals[a]; live {
			t.assumeTyped(h, v, a.Type().(*types.Pointer).Elem())
			if a.Comment == "rangeindex" {
				// the hidden index of a range-over-slice loop starts at -1 and is only incremented
				t.assume(h, "(>= "+v+" (- 1))")
				// ... and at the loop head it is below the length that was taken before the loop
				for _, in := range li.header.Instrs {
					if bo, ok := in.(*ssa.BinOp); ok && bo.Op == token.LSS {
						if inc, ok := bo.X.(*ssa.BinOp); ok && inc.Op == token.ADD {
							if ld, ok := inc.X.(*ssa.UnOp); ok && ld.X == ssa.Value(a) {
								if lt, known := t.vals[bo.Y]; known {
									t.assume(h, "(or (< "+v+" "+lt+") (and (= "+v+" (- 1)) (<= "+lt+" 0)))")
								}
							}
						}
					}
				}
			}
		}
	}
	if li.spec != nil {
		env := t.invEnv(h, li)
		for _, c := range li.spec.Invs {
			f, _ := env.Eval(c.E)
			t.assumeL(h, f, "inv."+c.Label)
		}
	} else if li.n > 0 {
		t.vc.note("loop %d of %s has no invariant (state havocked)", li.n, t.short)
	}
	t.implicitFrameAssume(h)
	return h
}

func (t *Translator) backEdge(li *loopInfo, st *State, from *ssa.BasicBlock) {
	label := fmt.Sprintf("loop%d", li.n)
	pos := t.w.pos(li.pos)
	for i := len(from.Instrs) - 1; i >= 0; i-- {
		if _, isDbg := from.Instrs[i].(*ssa.DebugRef); isDbg {
			continue
		}
		if p := from.Instrs[i].Pos(); p.IsValid() {
			pos += "<-" + t.w.pos(p)
			break
		}
	}
	if li.spec != nil {
		t.cover(st, label+".body", pos)
		env := t.invEnv(st, li)
		for _, c := range li.spec.Invs {
			if c.Free {
				continue
			}
			f, _ := env.Eval(c.E)
			t.oblige(st, label+".preserve", c.Label, c.Tags, f, pos, c.Src)
		}
	}
	t.implicitFrameCheck(st, label+".preserve", pos)
}

// ---------- frame (modifies) ----------

// modPreds returns, per heap array name, the predicate (as a function of a ref term) saying the ref may be modified.
func (t *Translator) modPreds(spec *FuncSpec, env *Env) map[string]func(r string) string {
	out := map[string]func(r string) string{}
	if spec == nil {
		return out
	}
	add := func(a *ArrInfo, f func(r string) string) {
		if old, ok := out[a.Name]; ok {
			out[a.Name] = func(r string) string { return "(or " + old(r) + " " + f(r) + ")" }
		} else {
			out[a.Name] = f
		}
	}
	for _, mc := range spec.Modifies {
		mc := mc
		switch mc.Kind {
		case "loc":
			fe, ok := mc.X.(*EField)
			if !ok {
				panic("modifies: expected x.f, got " + mc.X.String())
			}
			bt, bty := env.Eval(fe.X)
			st, ok := isPtrToStruct(bty.Go)
			if !ok {
				panic("modifies: base of " + mc.X.String() + " is not a pointer to struct")
			}
			_, index, _ := types.LookupFieldOrMethod(bty.Go, true, env.pkgFor(bty.Go), fe.Name)
			if len(index) != 1 {
				panic("modifies: field " + fe.Name + " not found or promoted")
			}
			add(t.w.fieldArr(st, index[0]), func(r string) string { return "(= " + r + " " + bt + ")" })
		case "mapall":
			bt, bty := env.Eval(mc.X)
			m, ok := types.Unalias(bty.Go).Underlying().(*types.Map)
			if !ok {
				panic("modifies: " + mc.X.String() + " is not a map")
			}
			md, mv := t.w.mapArrs(m)
			f := func(r string) string { return "(= " + r + " " + bt + ")" }
			add(md, f)
			add(mv, f)
		case "array":
			var arrs []*ArrInfo
			var vt *SType
			if mc.TypeX != nil {
				ty := t.w.resolveType(mc.TypeX, env.ctx)
				if m, ok := types.Unalias(ty.Go).Underlying().(*types.Map); ok {
					md, mv := t.w.mapArrs(m)
					arrs = []*ArrInfo{md, mv}
					vt = ty
				} else if pt, ok := types.Unalias(ty.Go).Underlying().(*types.Pointer); ok && mc.Field == "" {
					arrs = []*ArrInfo{t.w.boxArr(pt.Elem())}
					vt = ty
				} else {
					_, index, _ := types.LookupFieldOrMethod(ty.Go, true, env.pkgFor(ty.Go), mc.Field)
					if len(index) != 1 {
						panic("modifies: no field " + mc.Field + " in " + ty.String())
					}
					arrs = []*ArrInfo{t.w.fieldArr(ty.Go, index[0])}
					vt = &SType{Go: types.NewPointer(ty.Go)}
				}
			} else {
				g, ok := t.w.Specs.Ghosts[mc.Field]
				if !ok {
					panic("modifies: unknown ghost field " + mc.Field)
				}
				gctx := t.w.ctxFor(g.PkgPath, g.File)
				arrs = []*ArrInfo{t.w.ghostArr(g, gctx)}
				vt = t.w.resolveType(g.Param.Type, gctx)
			}
			f := func(r string) string {
				p, _ := env.with(map[string]binding{mc.Var: {term: r, typ: vt}}).Eval(mc.Pred)
				return p
			}
			for _, a := range arrs {
				add(a, f)
			}
		}
	}
	return out
}

// frameFormula: forall r. allocated_old(r) && !P(r) ==> A_new[r] == A_old[r]
func frameFormula(aNew, aOld string, oldNext string, pred func(r string) string, qid int) string {
	r := fmt.Sprintf("r!f%d", qid)
	cond := "(and (< 0 " + r + ") (< " + r + " " + oldNext + "))"
	if pred != nil {
		cond = "(and (< 0 " + r + ") (< " + r + " " + oldNext + ") (not " + pred(r) + "))"
	}
	return "(forall ((" + r + " Int)) (! (=> " + cond + " (= (select " + aNew + " " + r + ") (select " + aOld + " " + r + "))) :pattern ((select " + aNew + " " + r + "))))"
}

func isHeapArrayFamily(a *ArrInfo) bool { return !strings.HasPrefix(a.Name, "glob!") }

// implicitFrameCheck: the function's own modifies clause holds so far (checked at loop init/preserve and return).
func (t *Translator) implicitFrameCheck(st *State, kind string, pos string) {
	if t.spec == nil || t.spec.Opaque {
		return
	}
	env := t.env(t.entry, t.entry.heap, nil)
	preds := t.modPreds(t.spec, env)
	var names []string
	for k := range st.heap.vers {
		names = append(names, k)
	}
	sort.Strings(names)
	for _, k := range names {
		a := t.w.heap.arrs[k]
		if !isHeapArrayFamily(a) {
			continue
		}
		cur := st.heap.vers[k]
		old := t.arrTerm(a, t.entry.heap)
		if cur == old {
			continue
		}
		if _, explicit := preds[k]; !explicit && t.spec.ModAll {
			continue
		}
		f := frameFormula(cur, old, t.entry.heap.next, preds[k], t.vc.fresh())
		t.oblige(st, kind+".frame", sanitizeLabel(k), t.frameTags(), f, pos, "modifies clause respected for "+k)
	}
}

func sanitizeLabel(s string) string {
	return strings.NewReplacer("!", "_", "$", "_", "@", "_").Replace(s)
}

func (t *Translator) frameTags() []string {
	if t.spec == nil {
		return nil
	}
	seen := map[string]bool{}
	var out []string
	for _, c := range t.spec.Ensures {
		for _, tg := range c.Tags {
			if !seen[tg] {
				seen[tg] = true
				out = append(out, tg)
			}
		}
	}
	sort.Strings(out)
	return out
}

func (t *Translator) implicitFrameAssume(st *State) {
	if t.spec == nil {
		return
	}
	env := t.env(t.entry, t.entry.heap, nil)
	preds := t.modPreds(t.spec, env)
	var names []string
	for k := range st.heap.vers {
		names = append(names, k)
	}
	sort.Strings(names)
	for _, k := range names {
		a := t.w.heap.arrs[k]
		if !isHeapArrayFamily(a) {
			continue
		}
		cur := st.heap.vers[k]
		old := t.arrTerm(a, t.entry.heap)
		if cur == old {
			continue
		}
		if _, explicit := preds[k]; !explicit && t.spec.ModAll {
			continue
		}
		t.assume(st, frameFormula(cur, old, t.entry.heap.next, preds[k], t.vc.fresh()))
	}
}

// allocKey / valueKey: total, run-independent orders on SSA values (names repeat across inlined functions)
func allocKey(a *ssa.Alloc) string { return valueKey(a) }

func valueKey(v ssa.Value) string {
	fn := ""
	if in, ok := v.(ssa.Instruction); ok && in.Parent() != nil {
		fn = in.Parent().String()
	}
	return fmt.Sprintf("%s/%s/%08d", fn, v.Name(), int(v.Pos()))
}

func (t *Translator) root() *Translator {
	r := t
	for r.parent != nil {
		r = r.parent
	}
	return r
}
