package main

import (
	"sort"
	"fmt"
	"go/constant"
	"go/token"
	"go/types"
	"strings"

	"golang.org/x/tools/go/ssa"
)

func (t *Translator) block(b *ssa.BasicBlock, st *State) {
	// phis
	for _, in := range b.Instrs {
		phi, ok := in.(*ssa.Phi)
		if !ok {
			break
		}
		n := t.vc.freshConst("phi!"+phi.Name(), t.S().SortOf(phi.Type()))
		for i, e := range phi.Edges {
			pred := b.Preds[i]
			for _, inc := range t.incoming[b] {
				if inc.from == pred {
					ev := t.val(inc.st, e)
					if ty, boxed := t.vc.copyIns[ev]; boxed {
						t.vc.copyIns[n] = ty // a variable that may hold a boxed interior pointer
					}
					t.vc.assume(inc.st.pc, "(= "+n+" "+ev+")")
				}
			}
		}
		t.vals[phi] = n
	}
	for _, in := range b.Instrs {
		t.instr(st, in)
	}
}

func (t *Translator) edge(st *State, from, to *ssa.BasicBlock, cond string) {
	e := st.clone()
	npc := t.vc.newPC(fmt.Sprintf("e%d_%d", from.Index, to.Index), st.pc)
	if cond == "true" {
		t.vc.assume(npc, st.pc)
	} else {
		t.vc.assume(npc, "(and "+st.pc+" "+cond+")")
	}
	e.pc = npc
	e.pcHasOb = false
	if t.isBackEdge(from, to) {
		t.backEdge(t.loops[to], e, from)
		return
	}
	t.incoming[to] = append(t.incoming[to], edgeIn{from, e})
}

func (t *Translator) instr(st *State, in ssa.Instruction) {
	switch in := in.(type) {
	case *ssa.DebugRef, *ssa.RunDefers, *ssa.Phi:
		return
	case *ssa.Alloc:
		elem := in.Type().(*types.Pointer).Elem()
		if !in.Heap {
			st.locals[in] = t.S().Zero(elem)
			t.paths[in] = &Path{local: in}
			return
		}
		r := t.allocRef(st)
		p := &Path{ref: r, refT: elem}
		t.paths[in] = p
		t.vals[in] = r
		if _, isStruct := elem.Underlying().(*types.Struct); isStruct {
			for _, i := range t.usedFieldIdxs(elem) {
				a := t.w.fieldArr(elem, i)
				t.setArr(st, a, "(store "+t.arrTerm(a, st.heap)+" "+r+" "+t.S().Zero(elem.Underlying().(*types.Struct).Field(i).Type())+")")
			}
		} else {
			a := t.w.boxArr(elem)
			t.setArr(st, a, "(store "+t.arrTerm(a, st.heap)+" "+r+" "+t.S().Zero(elem)+")")
		}
	case *ssa.Store:
		p := t.pathOf(st, in.Addr)
		var v string
		if _, isPtr := in.Val.Type().Underlying().(*types.Pointer); isPtr {
			switch in.Val.(type) {
			case *ssa.FieldAddr, *ssa.IndexAddr:
				if !(p.local != nil && len(p.steps) == 0) {
					t.vc.unsupportedf("address of a field or element stored in the heap in %s at %s", t.short, t.w.pos(in.Pos()))
				}
			}
			v = t.refOf(st, in.Val)
		} else {
			v = t.val(st, in.Val)
		}
		t.storePath(st, p, v, in.Pos())
	case *ssa.UnOp:
		switch in.Op {
		case token.MUL:
			p := t.pathOf(st, in.X)
			v := t.loadPath(st, p, in.Pos())
			// name long terms
			so := t.S().SortOf(in.Type())
			if len(v) > 48 {
				n := t.vc.freshConst("v!"+in.Name(), so)
				t.assume(st, "(= "+n+" "+v+")")
				v = n
			}
			t.vals[in] = v
			if p.local != nil && len(p.steps) == 0 && t.interiorLocals[p.local] {
				if pt, isPtr := in.Type().Underlying().(*types.Pointer); isPtr {
					t.vc.copyIns[v] = pt.Elem() // value of a variable that may hold a boxed interior pointer
				}
			}
			t.assumeTyped(st, v, in.Type())
			switch in.Type().Underlying().(type) {
			case *types.Slice, *types.Array, *types.Struct:
				t.origin[in] = p
			}
		case token.NOT:
			t.vals[in] = "(not " + t.val(st, in.X) + ")"
		case token.SUB:
			t.vals[in] = "(- " + t.val(st, in.X) + ")"
		default:
			t.vals[in] = t.vc.freshConst("unop", t.S().SortOf(in.Type()))
			t.vc.note("unary operator %s abstracted in %s", in.Op, t.short)
		}
	case *ssa.FieldAddr:
		base := t.pathOf(st, in.X)
		if base.ref != "" && len(base.steps) == 0 {
			t.safety(st, "nilderef", "(not (= "+base.ref+" 0))", in.Pos(), "nil")
		}
		stt := in.X.Type().Underlying().(*types.Pointer).Elem()
		t.S().UseField(stt, in.Field)
		t.paths[in] = base.extend(Step{kind: stField, field: in.Field, ctype: stt})
	case *ssa.Field:
		t.vals[in] = t.S().GetField(in.X.Type(), in.Field, t.val(st, in.X))
	case *ssa.IndexAddr:
		idx := t.val(st, in.Index)
		switch xt := in.X.Type().Underlying().(type) {
		case *types.Pointer: // pointer to array
			base := t.pathOf(st, in.X)
			arrT := xt.Elem()
			n := arrT.Underlying().(*types.Array).Len()
			t.safety(st, "index", fmt.Sprintf("(and (<= 0 %s) (< %s %d))", idx, idx, n), in.Pos(), "index")
			t.paths[in] = base.extend(Step{kind: stIndex, ctype: arrT, index: idx})
		case *types.Slice:
			sv := t.val(st, in.X)
			so := t.S().SortOf(in.X.Type())
			t.safety(st, "index", "(and (<= 0 "+idx+") (< "+idx+" "+slLen(so, sv)+"))", in.Pos(), "index")
			base, ok := t.origin[in.X]
			if !ok {
				base = &Path{tmp: sv, tmpT: in.X.Type()}
			}
			t.paths[in] = base.extend(Step{kind: stIndex, ctype: in.X.Type(), index: idx})
		default:
			panic("IndexAddr on " + in.X.Type().String())
		}
	case *ssa.Index:
		idx := t.val(st, in.Index)
		xv := t.val(st, in.X)
		switch in.X.Type().Underlying().(type) {
		case *types.Array:
			t.vals[in] = "(select " + xv + " " + idx + ")"
		default:
			t.vc.needStrFuns()
			t.vals[in] = t.vc.freshConst("stridx", "Int")
		}
	case *ssa.BinOp:
		t.binop(st, in)
	case *ssa.If:
		c := t.val(st, in.Cond)
		b := in.Block()
		t.edge(st, b, b.Succs[0], c)
		t.edge(st, b, b.Succs[1], "(not "+c+")")
	case *ssa.Jump:
		b := in.Block()
		t.edge(st, b, b.Succs[0], "true")
	case *ssa.Return:
		t.doReturn(st, in)
	case *ssa.Panic:
		t.safety(st, "panic", "false", in.Pos(), "explicit")
	case *ssa.Extract:
		tp, ok := t.tuples[in.Tuple]
		if !ok {
			panic("extract from unknown tuple " + in.Tuple.Name())
		}
		t.vals[in] = tp[in.Index]
	case *ssa.MakeInterface:
		t.vals[in] = t.makeIface(st, in.X)
	case *ssa.ChangeInterface:
		t.vals[in] = t.val(st, in.X)
	case *ssa.ChangeType:
		if _, isPtr := in.X.Type().Underlying().(*types.Pointer); isPtr {
			if p, ok := t.paths[in.X]; ok {
				t.paths[in] = p
				return
			}
		}
		t.vals[in] = t.val(st, in.X)
		if o, ok := t.origin[in.X]; ok {
			t.origin[in] = o
		}
	case *ssa.Convert:
		t.convert(st, in)
	case *ssa.TypeAssert:
		t.typeAssert(st, in)
	case *ssa.MakeMap:
		r := t.allocRef(st)
		m := in.Type().Underlying().(*types.Map)
		md, mv := t.w.mapArrs(m)
		ks, vs := t.S().SortOf(m.Key()), t.S().SortOf(m.Elem())
		t.setArr(st, md, "(store "+t.arrTerm(md, st.heap)+" "+r+" ((as const (Array "+ks+" Bool)) false))")
		t.setArr(st, mv, "(store "+t.arrTerm(mv, st.heap)+" "+r+" ((as const (Array "+ks+" "+vs+")) "+t.S().finalZero(vs)+"))")
		t.vals[in] = r
	case *ssa.MapUpdate:
		m := t.val(st, in.Map)
		mt := in.Map.Type().Underlying().(*types.Map)
		md, mv := t.w.mapArrs(mt)
		k := t.val(st, in.Key)
		var v string
		if _, isPtr := in.Value.Type().Underlying().(*types.Pointer); isPtr {
			v = t.refOf(st, in.Value)
		} else {
			v = t.val(st, in.Value)
		}
		t.safety(st, "nilmap", "(not (= "+m+" 0))", in.Pos(), "write")
		// inserting into a map that is being ranged over is outside the subset
		for _, li := range t.inLoops[in.Block()] {
			if r := t.rangeOfNext[li.header]; r != nil {
				rmd, _ := t.w.mapArrs(r.X.Type().Underlying().(*types.Map))
				if rmd == md {
					rm := t.val(st, r.X)
					t.safety(st, "rangeinsert", "(or (not (= "+m+" "+rm+")) (select (select "+t.arrTerm(md, st.heap)+" "+m+") "+k+"))", in.Pos(), "map")
				}
			}
		}
		dcur := t.arrTerm(md, st.heap)
		vcur := t.arrTerm(mv, st.heap)
		t.setArr(st, md, "(store "+dcur+" "+m+" (store (select "+dcur+" "+m+") "+k+" true))")
		t.setArr(st, mv, "(store "+vcur+" "+m+" (store (select "+vcur+" "+m+") "+k+" "+v+"))")
	case *ssa.Lookup:
		t.lookup(st, in)
	case *ssa.Range:
		if mt, ok := in.X.Type().Underlying().(*types.Map); ok {
			ks := t.S().SortOf(mt.Key())
			n := t.vc.freshConst("seen", "(Array "+ks+" Bool)")
			t.assume(st, "(= "+n+" ((as const (Array "+ks+" Bool)) false))")
			st.iters[in] = n
			t.vals[in] = "0"
			if t.rangeDom0 == nil {
				t.rangeDom0 = map[*ssa.Range]string{}
			}
			md, _ := t.w.mapArrs(mt)
			t.rangeDom0[in] = "(select " + t.arrTerm(md, st.heap) + " " + t.val(st, in.X) + ")"
		} else {
			t.vc.unsupportedf("range over string in %s", t.short)
			t.vals[in] = "0"
		}
	case *ssa.Next:
		t.next(st, in)
	case *ssa.MakeSlice:
		so := t.S().SortOf(in.Type())
		es, _ := t.S().slices[so]
		ln := t.val(st, in.Len)
		t.safety(st, "makeslice", "(>= "+ln+" 0)", in.Pos(), "len")
		t.vals[in] = slMk(so, "((as const (Array Int "+es+")) "+t.S().finalZero(es)+")", ln, "false")
	case *ssa.Slice:
		t.sliceOp(st, in)
	case *ssa.MakeClosure:
		fn := in.Fn.(*ssa.Function)
		n := t.vc.freshConst("closure", "Int")
		t.vals[in] = n
		t.closures[in] = fn
		// bindings are pointers to captured variables; they stay in box arrays
		for _, b := range in.Bindings {
			_ = t.refOf(st, b)
		}
	case *ssa.Defer:
		name := ""
		if c := in.Call.StaticCallee(); c != nil {
			name = c.Name()
		} else if in.Call.IsInvoke() {
			name = in.Call.Method.Name()
		}
		switch name {
		case "Unlock", "RUnlock", "Close", "cancel":
		default:
			if _, isFn := in.Call.Value.Type().Underlying().(*types.Signature); isFn && name == "" {
				// context.CancelFunc and similar
				t.vc.note("deferred call of a function value ignored in %s", t.short)
			} else {
				t.vc.unsupportedf("defer %s in %s", name, t.short)
			}
		}
	case *ssa.Go:
		t.vc.unsupportedf("go statement in %s", t.short)
	case *ssa.Call:
		t.call(st, in)
	case *ssa.Send, *ssa.Select, *ssa.MakeChan:
		t.vc.unsupportedf("channel operation in %s", t.short)
	default:
		panic(fmt.Sprintf("unhandled instruction %T: %s", in, in))
	}
}

func (t *Translator) makeIface(st *State, x ssa.Value) string {
	xt := x.Type()
	if _, isIface := xt.Underlying().(*types.Interface); isIface {
		return t.val(st, x)
	}
	tag := t.S().Tag(xt)
	switch xt.Underlying().(type) {
	case *types.Pointer:
		return fmt.Sprintf("(mk-iface %d %s)", tag, t.refOf(st, x))
	case *types.Map, *types.Signature, *types.Chan:
		return fmt.Sprintf("(mk-iface %d %s)", tag, t.val(st, x))
	}
	so := t.S().SortOf(xt)
	box, _ := t.vc.needBox(so)
	return fmt.Sprintf("(mk-iface %d (%s %s))", tag, box, t.val(st, x))
}

func (t *Translator) convert(st *State, in *ssa.Convert) {
	from, to := in.X.Type().Underlying(), in.Type().Underlying()
	fb, fok := from.(*types.Basic)
	tb, tok := to.(*types.Basic)
	x := t.val(st, in.X)
	switch {
	case fok && tok && fb.Info()&types.IsInteger != 0 && tb.Info()&types.IsInteger != 0:
		// A-int: conversions between integer types are identity (value assumed representable)
		t.vals[in] = x
	case fok && tok && fb.Info()&types.IsString != 0 && tb.Info()&types.IsString != 0:
		t.vals[in] = x
	case fok && tok && fb.Info()&types.IsInteger != 0 && tb.Info()&types.IsString != 0 && isConstInt(in.X):
		// string(rune constant)
		v, _ := constant.Int64Val(in.X.(*ssa.Const).Value)
		t.vals[in] = t.S().StrLit(string(rune(v)))
	default:
		so := t.S().SortOf(in.Type())
		fso := t.S().SortOf(in.X.Type())
		fn := "conv!" + sanitize(fso) + "!" + sanitize(so)
		t.vc.declareFun(fn, []string{fso}, so)
		t.vals[in] = "(" + fn + " " + x + ")"
	}
}

func isConstInt(v ssa.Value) bool {
	c, ok := v.(*ssa.Const)
	return ok && c.Value != nil && c.Value.Kind() == constant.Int
}

func (t *Translator) implementers(it *types.Interface) []types.Type {
	var out []types.Type
	for _, f := range t.w.FuncList {
		_ = f
	}
	for _, T := range t.w.allNamedTypes() {
		for _, cand := range []types.Type{T, types.NewPointer(T)} {
			if _, isIface := cand.Underlying().(*types.Interface); isIface {
				continue
			}
			if types.Implements(cand, it) {
				out = append(out, cand)
				break
			}
		}
	}
	return out
}

func (w *World) allNamedTypes() []types.Type {
	if w.namedTypes != nil {
		return w.namedTypes
	}
	for _, f := range []string{} {
		_ = f
	}
	var paths []string
	for p := range w.SSAPkgs {
		paths = append(paths, p)
	}
	sortStrings(paths)
	for _, p := range paths {
		sc := w.SSAPkgs[p].Pkg.Scope()
		for _, n := range sc.Names() {
			if tn, ok := sc.Lookup(n).(*types.TypeName); ok && !tn.IsAlias() {
				w.namedTypes = append(w.namedTypes, tn.Type())
			}
		}
	}
	return w.namedTypes
}

func (t *Translator) typeAssert(st *State, in *ssa.TypeAssert) {
	x := t.val(st, in.X)
	at := in.AssertedType
	var ok, v string
	if it, isIface := at.Underlying().(*types.Interface); isIface {
		// interface-to-interface
		if it.NumMethods() == 0 {
			ok = "(not (= (itag " + x + ") 0))"
		} else if named, isNamed := at.(*types.Named); isNamed && named.Obj().Pkg() != nil && isRepoPkg(named.Obj().Pkg().Path()) {
			var alts []string
			for _, impl := range t.implementers(it) {
				alts = append(alts, fmt.Sprintf("(= (itag %s) %d)", x, t.S().Tag(impl)))
			}
			if len(alts) == 0 {
				ok = "false"
			} else {
				ok = "(or " + strings.Join(alts, " ") + ")"
			}
		} else {
			o := t.vc.freshConst("implements", "Bool")
			t.assume(st, "(=> "+o+" (not (= (itag "+x+") 0)))")
			ok = o
		}
		v = x
	} else {
		ok = fmt.Sprintf("(= (itag %s) %d)", x, t.S().Tag(at))
		switch at.Underlying().(type) {
		case *types.Pointer, *types.Map, *types.Signature, *types.Chan:
			v = "(iref " + x + ")"
		default:
			_, unbox := t.vc.needBox(t.S().SortOf(at))
			v = "(" + unbox + " (iref " + x + "))"
		}
	}
	if in.CommaOk {
		okc := t.vc.freshConst("ok", "Bool")
		t.assume(st, "(= "+okc+" "+ok+")")
		t.tuples[in] = []string{"(ite " + okc + " " + v + " " + t.S().Zero(at) + ")", okc}
		return
	}
	t.safety(st, "typeassert", ok, in.Pos(), "assert")
	t.vals[in] = v
	if _, isPtr := at.Underlying().(*types.Pointer); isPtr {
		t.assumeTyped(st, v, at)
	}
}

func (t *Translator) lookup(st *State, in *ssa.Lookup) {
	mt, isMap := in.X.Type().Underlying().(*types.Map)
	if !isMap {
		// string index
		t.vals[in] = t.vc.freshConst("strbyte", "Int")
		return
	}
	m := t.val(st, in.X)
	k := t.val(st, in.Index)
	md, mv := t.w.mapArrs(mt)
	dom := "(and (not (= " + m + " 0)) (select (select " + t.arrTerm(md, st.heap) + " " + m + ") " + k + "))"
	okc := t.vc.freshConst("has", "Bool")
	t.assume(st, "(= "+okc+" "+dom+")")
	raw := "(select (select " + t.arrTerm(mv, st.heap) + " " + m + ") " + k + ")"
	v := t.vc.freshConst("mv!"+in.Name(), t.S().SortOf(mt.Elem()))
	t.assume(st, "(= "+v+" (ite "+okc+" "+raw+" "+t.S().Zero(mt.Elem())+"))")
	t.assumeTyped(st, v, mt.Elem())
	if in.CommaOk {
		t.tuples[in] = []string{v, okc}
	} else {
		t.vals[in] = v
	}
}

func (t *Translator) next(st *State, in *ssa.Next) {
	r, ok := in.Iter.(*ssa.Range)
	if !ok || in.IsString {
		t.vc.unsupportedf("string iteration in %s", t.short)
		t.tuples[in] = []string{t.vc.freshConst("ok", "Bool"), t.vc.freshConst("k", "Int"), t.vc.freshConst("v", "Int")}
		return
	}
	mt := r.X.Type().Underlying().(*types.Map)
	md, mv := t.w.mapArrs(mt)
	ks := t.S().SortOf(mt.Key())
	m := t.val(st, r.X)
	seen := st.iters[r]
	okc := t.vc.freshConst("ok", "Bool")
	k := t.vc.freshConst("k", ks)
	v := t.vc.freshConst("v", t.S().SortOf(mt.Elem()))
	domArr := "(select " + t.arrTerm(md, st.heap) + " " + m + ")"
	t.assume(st, "(=> "+okc+" (and (not (= "+m+" 0)) (select "+domArr+" "+k+") (not (select "+seen+" "+k+")) (= "+v+" (select (select "+t.arrTerm(mv, st.heap)+" "+m+") "+k+"))))")
	q := fmt.Sprintf("k!n%d", t.vc.fresh())
	t.assume(st, "(=> (not "+okc+") (or (= "+m+" 0) (forall (("+q+" "+ks+")) (! (=> (select "+domArr+" "+q+") (select "+seen+" "+q+")) :pattern ((select "+domArr+" "+q+")) :pattern ((select "+seen+" "+q+"))))))")
	t.assumeTyped(st, v, mt.Elem())
	t.assumeTyped(st, k, mt.Key())
	// every key is visited at most once and (no key is added to the ranged map inside the loop: a direct insertion of a new key
	// is a safety obligation, and no call in the loop writes this map type) only keys present at the start are visited:
	// the number of keys visited before this one is below the number of entries the map had
	if d0, ok := t.rangeDom0[r]; ok && t.rangeBound[r] == 1 {
		t.vc.needCard(ks)
		cn := "card!" + sanitize(ks)
		t.assume(st, "(=> "+okc+" (< ("+cn+" "+seen+") ("+cn+" "+d0+")))")
	}
	nseen := t.vc.freshConst("seen", "(Array "+ks+" Bool)")
	t.assume(st, "(= "+nseen+" (ite "+okc+" (store "+seen+" "+k+" true) "+seen+"))")
	st.iters[r] = nseen
	t.tuples[in] = []string{okc, k, v}
}

func (t *Translator) sliceOp(st *State, in *ssa.Slice) {
	lo, hi := "0", ""
	if in.Low != nil {
		lo = t.val(st, in.Low)
	}
	if in.High != nil {
		hi = t.val(st, in.High)
	}
	switch xt := in.X.Type().Underlying().(type) {
	case *types.Pointer: // pointer to array
		arrT := xt.Elem().Underlying().(*types.Array)
		p := t.pathOf(st, in.X)
		av := t.loadPath(st, p, in.Pos())
		so := t.S().SortOf(in.Type())
		if hi == "" {
			hi = fmt.Sprint(arrT.Len())
		}
		if lo == "0" {
			t.vals[in] = slMk(so, av, hi, "false")
			if in.High == nil {
				t.constLen[in] = int(arrT.Len())
			}
			return
		}
		t.vals[in] = t.shifted(st, so, av, lo, hi)
	case *types.Slice:
		sv := t.val(st, in.X)
		so := t.S().SortOf(in.X.Type())
		if hi == "" {
			hi = slLen(so, sv)
		}
		// bounds: 0 <= lo <= hi <= cap; capacity is not modelled, len is used (A-append: stricter than Go)
		t.safety(st, "slicebounds", "(and (<= 0 "+lo+") (<= "+lo+" "+hi+") (<= "+hi+" "+slLen(so, sv)+"))", in.Pos(), "slice")
		if lo == "0" {
			t.vals[in] = slMk(so, slArr(so, sv), hi, "false")
			return
		}
		t.vals[in] = t.shifted(st, so, slArr(so, sv), lo, hi)
	case *types.Basic: // string
		fn := "substr"
		t.vc.declareFun(fn, []string{"Str", "Int", "Int"}, "Str")
		sv := t.val(st, in.X)
		t.vc.needStrFuns()
		if hi == "" {
			hi = "(str!len " + sv + ")"
		}
		t.safety(st, "slicebounds", "(and (<= 0 "+lo+") (<= "+lo+" "+hi+") (<= "+hi+" (str!len "+sv+")))", in.Pos(), "string")
		t.vals[in] = "(substr " + sv + " " + lo + " " + hi + ")"
	default:
		panic("slice of " + in.X.Type().String())
	}
}

func (t *Translator) shifted(st *State, so, arr, lo, hi string) string {
	es := t.S().slices[so]
	na := t.vc.freshConst("shift", "(Array Int "+es+")")
	q := fmt.Sprintf("i!s%d", t.vc.fresh())
	t.assume(st, "(forall (("+q+" Int)) (! (= (select "+na+" "+q+") (select "+arr+" (+ "+q+" "+lo+"))) :pattern ((select "+na+" "+q+"))))")
	return slMk(so, na, "(- "+hi+" "+lo+")", "false")
}

func (t *Translator) binop(st *State, in *ssa.BinOp) {
	xt := in.X.Type().Underlying()
	var x, y string
	if _, isPtr := xt.(*types.Pointer); isPtr {
		x, y = t.refOf(st, in.X), t.refOf(st, in.Y)
	} else {
		x, y = t.val(st, in.X), t.val(st, in.Y)
	}
	isStr := false
	if b, ok := xt.(*types.Basic); ok && b.Info()&types.IsString != 0 {
		isStr = true
	}
	switch in.Op {
	case token.EQL, token.NEQ:
		var r string
		if _, isSlice := xt.(*types.Slice); isSlice {
			// only comparison with nil is legal
			so := t.S().SortOf(in.X.Type())
			if c, ok := in.Y.(*ssa.Const); ok && c.Value == nil {
				r = slNil(so, x)
			} else {
				r = slNil(so, y)
			}
		} else {
			r = "(= " + x + " " + y + ")"
		}
		if in.Op == token.NEQ {
			r = "(not " + r + ")"
		}
		t.vals[in] = r
	case token.LSS, token.LEQ, token.GTR, token.GEQ:
		op := map[token.Token]string{token.LSS: "<", token.LEQ: "<=", token.GTR: ">", token.GEQ: ">="}[in.Op]
		if isStr {
			t.vc.needStrFuns()
			switch in.Op {
			case token.LSS:
				t.vals[in] = "(str!lt " + x + " " + y + ")"
			case token.GTR:
				t.vals[in] = "(str!lt " + y + " " + x + ")"
			case token.LEQ:
				t.vals[in] = "(not (str!lt " + y + " " + x + "))"
			default:
				t.vals[in] = "(not (str!lt " + x + " " + y + "))"
			}
		} else {
			t.vals[in] = "(" + op + " " + x + " " + y + ")"
		}
	case token.ADD:
		if isStr {
			t.vc.needStrFuns()
			t.vals[in] = "(str!cat " + x + " " + y + ")"
		} else {
			t.vals[in] = "(+ " + x + " " + y + ")"
		}
	case token.SUB:
		t.vals[in] = "(- " + x + " " + y + ")"
	case token.MUL:
		t.vals[in] = "(* " + x + " " + y + ")"
	case token.QUO:
		t.safety(st, "divzero", "(not (= "+y+" 0))", in.Pos(), "div")
		t.vals[in] = "(div " + x + " " + y + ")"
		t.vc.note("integer division modelled as SMT div (differs from Go for negative operands) in %s", t.short)
	case token.REM:
		t.safety(st, "divzero", "(not (= "+y+" 0))", in.Pos(), "mod")
		t.vals[in] = "(mod " + x + " " + y + ")"
	default:
		so := t.S().SortOf(in.Type())
		fn := "binop!" + sanitize(in.Op.String()) + fmt.Sprint(int(in.Op))
		t.vc.declareFun(fn, []string{"Int", "Int"}, so)
		t.vals[in] = "(" + fn + " " + x + " " + y + ")"
	}
}

// returnOrdinal numbers the return statements of the function in source order (1-based); synthetic returns get 0
func (t *Translator) returnOrdinal(in *ssa.Return) int {
	var rets []*ssa.Return
	for _, b := range t.fn.Blocks {
		for _, i := range b.Instrs {
			if r, ok := i.(*ssa.Return); ok && r.Pos().IsValid() {
				rets = append(rets, r)
			}
		}
	}
	sort.SliceStable(rets, func(i, j int) bool { return rets[i].Pos() < rets[j].Pos() })
	for i, r := range rets {
		if r == in {
			return i + 1
		}
	}
	return 0
}

func (t *Translator) doReturn(st *State, in *ssa.Return) {
	pos := t.w.pos(in.Pos())
	if !in.Pos().IsValid() {
		if syn := t.fn.Syntax(); syn != nil {
			pos = t.w.pos(syn.End())
		}
	}
	if t.parent != nil {
		var rs []string
		for _, r := range in.Results {
			rs = append(rs, t.argTerm(st, r))
		}
		t.rets = append(t.rets, retEdge{st.clone(), rs})
		return
	}
	if t.spec == nil {
		return
	}
	t.cover(st, "return", pos)
	// ghost assertions attached to this return statement ("before return N:"): proved here, then assumed for the postconditions
	if len(t.spec.Before) > 0 {
		if n := t.returnOrdinal(in); n > 0 && len(t.spec.Before[retBase+n]) > 0 {
			for _, cl := range t.spec.Before[retBase+n] {
				t.bodyLocals = true
				env := t.invEnv(st, nil)
				t.bodyLocals = false
				env.pre = nil
				// a function with a single map-range loop: seen(k) / seencount() speak about the keys that loop has visited
				// (so "every key of the map has been visited" - no early exit - can be asserted at the return)
				{
					var only *ssa.Range
					cnt := 0
					for _, r := range t.rangeOfNext {
						if r != nil && r != only {
							only = r
							cnt++
						}
					}
					if cnt == 1 {
						if sv, ok := st.iters[only]; ok {
							env.seen = sv
							if mt, isMap := only.X.Type().Underlying().(*types.Map); isMap {
								env.seenKey = &SType{Go: mt.Key()}
							}
						}
					}
				}
				f, _ := env.Eval(cl.E)
				t.oblige(st, fmt.Sprintf("assert.return%d", n), cl.Label, cl.Tags, f, pos, cl.Src)
			}
		}
	}
	extra := map[string]binding{}
	for i, r := range in.Results {
		var v string
		if _, isPtr := r.Type().Underlying().(*types.Pointer); isPtr {
			v = t.refOf(st, r)
		} else {
			v = t.val(st, r)
		}
		extra[t.resultNames[i]] = binding{term: v, typ: &SType{Go: t.fn.Signature.Results().At(i).Type()}}
	}
	env := t.env(st, t.entry.heap, extra)
	if t.spec.SortSlice != nil && len(t.fn.Params) >= 2 && len(in.Results) == 1 {
		t.sortClosureObligations(st, env, extra[t.resultNames[0]].term, pos)
	}
	for _, c := range t.spec.Ensures {
		if c.Free {
			continue
		}
		f, _ := env.Eval(c.E)
		// a known finding pins this clause: it must still hold outside the recorded failing class (carve-out),
		// so that a different violation of the same clause is reported
		if kf := knownCarveOut(t.short + "#ensures." + c.Label); kf != nil {
			ce, err := parseExprString(kf.CarveOut)
			if err != nil {
				panic("known_findings.json: carve_out of " + kf.ID + ": " + err.Error())
			}
			cv, _ := env.Eval(ce)
			sub := st.clone()
			t.oblige(sub, "ensures", c.Label+"!except-"+kf.ID, c.Tags, "(=> (not "+cv+") "+f+")", pos, "outside carve-out of "+kf.ID+": "+c.Src)
		}
		t.oblige(st, "ensures", c.Label, c.Tags, f, pos, c.Src)
	}
	t.implicitFrameCheck(st, "return", pos)
}

// cover adds a reachability (vacuity) check: the path condition here must be satisfiable.
func (t *Translator) cover(st *State, what, pos string) {
	name := t.short + "#cover." + what
	base := name
	for i := 2; ; i++ {
		dup := false
		for _, o := range t.vc.obs {
			if o.Name == name {
				dup = true
				break
			}
		}
		if !dup {
			break
		}
		name = fmt.Sprintf("%s~%d", base, i)
	}
	t.vc.obs = append(t.vc.obs, &Obligation{Name: name, Kind: "cover", PC: st.pc, Goal: "true", Cover: true, Func: t.short, Pos: pos, vc: t.vc})
	st.pcHasOb = true
}

var knownCache *KnownFile

// knownCarveOut returns the known finding (with a carve-out) pinned to the given base obligation name.
func knownCarveOut(base string) *KnownFinding {
	if knownCache == nil {
		knownCache = loadKnown()
	}
	for i := range knownCache.Findings {
		k := &knownCache.Findings[i]
		if k.Kind == "known" && k.Obligation == base && k.CarveOut != "" {
			return k
		}
	}
	return nil
}
