package main

import (
	"bytes"
	"context"
	"crypto/sha256"
	"encoding/hex"
	"fmt"
	"os"
	"os/exec"
	"path/filepath"
	"strings"
	"sync"
	"sync/atomic"
	"time"
)

type SolverCfg struct {
	Name string
	Cmd  func(file string, timeoutS int, seed int) []string
}

var solvers = []SolverCfg{
	{"z3-new-5.1.0", func(f string, to int, seed int) []string {
		return []string{"z3-new", "smt.mbqi=false", "auto_config=false", fmt.Sprintf("smt.random_seed=%d", seed), fmt.Sprintf("-T:%d", to), f}
	}},
	{"z3-4.8.12", func(f string, to int, seed int) []string {
		return []string{"/usr/bin/z3", "smt.mbqi=false", "auto_config=false", fmt.Sprintf("smt.random_seed=%d", seed), fmt.Sprintf("-T:%d", to), f}
	}},
	{"cvc5-1.0", func(f string, to int, seed int) []string {
		return []string{"cvc5", "--lang=smt2", fmt.Sprintf("--tlimit=%d", to*1000), fmt.Sprintf("--seed=%d", seed), f}
	}},
	{"z3-new-5.1.0-mbqi", func(f string, to int, seed int) []string {
		return []string{"z3-new", fmt.Sprintf("smt.random_seed=%d", seed), fmt.Sprintf("-T:%d", to), f}
	}},
	// relevancy filtering off: terms inside the untaken branch of a disjunction still trigger instantiations (a point set
	// is "AllowAll or the per-protocol intervals", and the triggers of the point-set quantifiers sit in the second disjunct)
	{"z3-new-5.1.0-rel0", func(f string, to int, seed int) []string {
		return []string{"z3-new", "smt.mbqi=false", "auto_config=false", "smt.relevancy=0", fmt.Sprintf("smt.random_seed=%d", seed), fmt.Sprintf("-T:%d", to), f}
	}},
}

var coverSolvers = []SolverCfg{
	{"z3-new-5.1.0", func(f string, to int, seed int) []string {
		return []string{"z3-new", fmt.Sprintf("-T:%d", to), f}
	}},
	{"cvc5-1.0", func(f string, to int, seed int) []string {
		return []string{"cvc5", "--lang=smt2", "--finite-model-find", fmt.Sprintf("--tlimit=%d", to*1000), f}
	}},
}

var queryFileSeq int64

type Solver struct {
	WorkDir   string
	CacheDir  string
	TimeoutS  int
	QuickS    int
	Seed      int
	AllAgree  bool // thorough: run every solver
	mu        sync.Mutex
	Stats     map[string]int
	TotalTime float64
	NoCache   bool
}

func NewSolver(work string) *Solver {
	os.MkdirAll(work, 0o755)
	return &Solver{WorkDir: work, CacheDir: filepath.Join(work, "cache"), TimeoutS: 20, QuickS: 4, Stats: map[string]int{}}
}

func runSolver(ctx context.Context, sc SolverCfg, file string, to int, seed int) (string, string, float64) {
	args := sc.Cmd(file, to, seed)
	cctx, cancel := context.WithTimeout(ctx, time.Duration(to+2)*time.Second)
	defer cancel()
	cmd := exec.CommandContext(cctx, args[0], args[1:]...)
	var out bytes.Buffer
	cmd.Stdout = &out
	cmd.Stderr = &out
	start := time.Now()
	_ = cmd.Run()
	el := time.Since(start).Seconds()
	text := out.String()
	for _, line := range strings.Split(text, "\n") {
		first := strings.TrimSpace(line)
		switch first {
		case "unsat", "sat", "unknown":
			return first, text, el
		}
		if first == "" || strings.HasPrefix(first, "WARNING") {
			continue
		}
		break
	}
	if strings.Contains(text, "timeout") || cctx.Err() != nil {
		return "timeout", text, el
	}
	return "error", text, el
}

// Discharge decides one obligation. Returns status: discharged | failed(sat) | undecided.
func (s *Solver) discharge(ob *Obligation, query string, stage int) {
	text := "(set-logic ALL)\n" + query
	sum := sha256.Sum256([]byte(text))
	h := hex.EncodeToString(sum[:])
	// the file name is unique per call: obligations with identical text run concurrently and each removes its file when done
	file := filepath.Join(s.WorkDir, "q", h[:2], fmt.Sprintf("%s-%d-%d.smt2", h, os.Getpid(), atomic.AddInt64(&queryFileSeq, 1)))
	cacheFile := filepath.Join(s.CacheDir, h[:2], h)
	want := "unsat"
	if ob.Cover {
		want = "sat"
	}
	if !s.NoCache {
		if data, err := os.ReadFile(cacheFile); err == nil {
			f := strings.Fields(string(data))
			if len(f) >= 2 && f[0] == want {
				ob.Status = "discharged"
				ob.Solver = f[1] + "(cached)"
				return
			}
		}
	}
	os.MkdirAll(filepath.Dir(file), 0o755)
	if err := os.WriteFile(file, []byte(text), 0o644); err != nil {
		ob.Status = "error"
		ob.Output = err.Error()
		return
	}
	ob.Output = file
	record := func(res, solver string, el float64) {
		s.mu.Lock()
		s.Stats[solver+":"+res]++
		s.TotalTime += el
		s.mu.Unlock()
	}
	finish := func(res, solver, out string, el float64) bool {
		switch {
		case res == want:
			ob.Status = "discharged"
			ob.Solver = solver
			ob.TimeS = el
			os.Remove(file)
			os.MkdirAll(filepath.Dir(cacheFile), 0o755)
			os.WriteFile(cacheFile, []byte(want+" "+solver+"\n"), 0o644)
			return true
		case res == "sat" && !ob.Cover && ob.Hints != nil:
			// hypotheses were dropped on purpose (proof hint): a model only says the hint is too narrow
			return false
		case res == "sat" && !ob.Cover, res == "unsat" && ob.Cover:
			ob.Status = "failed"
			ob.Solver = solver
			ob.TimeS = el
			return true
		}
		return false
	}
	// stage 1: fast solver, short timeout
	ctx := context.Background()
	if ob.Cover {
		// reachability (vacuity guard): the path must not be refutable. unsat = vacuous = failed;
		// sat or unknown (quantifiers, no model-based instantiation) = not refuted.
		res, _, el := runSolver(ctx, solvers[0], file, 2, s.Seed)
		for try := 0; res == "error" && try < 3; try++ {
			res, _, el = runSolver(ctx, solvers[0], file, 2, s.Seed) // a solver process that died without an answer is retried
		}
		record(res, solvers[0].Name, el)
		ob.TimeS = el
		ob.Solver = solvers[0].Name + "=" + res
		if res != "unsat" && res != "error" {
			os.Remove(file)
		}
		if res == "unsat" {
			ob.Status = "failed"
		} else if res == "error" {
			ob.Status = "undecided"
		} else {
			ob.Status = "discharged"
		}
		return
	}
	if stage == 1 {
		res, out, el := runSolver(ctx, solvers[0], file, s.QuickS, s.Seed)
		record(res, solvers[0].Name, el)
		if finish(res, solvers[0].Name, out, el) {
			return
		}
		if res == "error" {
			ob.Output += "\n" + out
		}
		return // undecided so far: stage 2 will race all solvers
	}
	// stage 2: a goal that is a conjunction is first tried conjunct by conjunct (and path by path) - when the whole did
	// not go through in stage 1 this is usually what works, and it is cheaper than waiting for the race to time out
	if !ob.Cover && !ob.Short && ob.split == nil && len(splitConj(ob.Goal)) > 1 {
		s.buildSplit(ob)
		if len(ob.split) > 0 && s.splitDischarge(ob) {
			os.MkdirAll(filepath.Dir(cacheFile), 0o755)
			os.WriteFile(cacheFile, []byte(want+" split\n"), 0o644)
			os.Remove(file)
			return
		}
		ob.split = []string{} // tried: do not repeat after the race
	}
	// race all solvers
	type r struct {
		res, solver, out string
		el               float64
	}
	cctx, cancel := context.WithCancel(ctx)
	defer cancel()
	ch := make(chan r, len(solvers))
	for _, sc := range solvers {
		sc := sc
		go func() {
			to := s.TimeoutS
			if ob.Short && to > 10 {
				to = 10
			}
			res, out, el := runSolver(cctx, sc, file, to, s.Seed)
			ch <- r{res, sc.Name, out, el}
		}()
	}
	var results []r
	done := false
	for i := 0; i < len(solvers); i++ {
		x := <-ch
		if cctx.Err() == nil {
			record(x.res, x.solver, x.el)
		}
		results = append(results, x)
		if !done && (x.res == want) {
			finish(x.res, x.solver, x.out, x.el)
			done = true
			if !s.AllAgree {
				cancel()
				return
			}
		}
	}
	if done {
		// thorough: record agreement
		var ag []string
		for _, x := range results {
			ag = append(ag, x.solver+"="+x.res)
		}
		ob.Solver += " [" + strings.Join(ag, ",") + "]"
		return
	}
	for _, x := range results {
		if finish(x.res, x.solver, x.out, x.el) {
			return
		}
	}
	var ag []string
	// last resort: one query per join path and per top-level conjunct of the goal (built only now: it is costly)
	if !ob.Cover && !ob.Short && ob.split == nil {
		s.buildSplit(ob)
	}
	if len(ob.split) > 0 && s.splitDischarge(ob) {
		os.MkdirAll(filepath.Dir(cacheFile), 0o755)
		os.WriteFile(cacheFile, []byte(want+" split\n"), 0o644)
		os.Remove(file)
		return
	}
	ob.Status = "undecided"
	for _, x := range results {
		ag = append(ag, x.solver+"="+x.res)
		if x.res == "error" {
			ob.Output += "\n" + x.solver + ": " + firstLines(x.out, 3)
		}
	}
	ob.Solver = strings.Join(ag, ",")
}

var buildMu sync.Mutex // query generation touches shared tables (sorts, declarations): one at a time

func (s *Solver) buildSplit(ob *Obligation) {
	buildMu.Lock()
	defer buildMu.Unlock()
	choices := ob.vc.pathChoices(ob.PC, 24)
	conj := splitConj(ob.Goal)
	if choices == nil {
		choices = []map[string]string{nil}
	}
	if len(choices) > 1 || len(conj) > 1 {
		for _, c := range choices {
			for _, g := range conj {
				ob.split = append(ob.split, ob.vc.QueryGoal(ob, c, g))
			}
		}
	}
}

func firstLines(s string, n int) string {
	l := strings.Split(s, "\n")
	if len(l) > n {
		l = l[:n]
	}
	return strings.Join(l, " | ")
}

// DischargeAll runs obligations in two phases: a fast single-solver pass at full parallelism, then the
// undecided ones raced on all solvers at reduced parallelism (so that solver processes do not starve each other).
func (s *Solver) DischargeAll(obs []*Obligation, par int) {
	queries := make([]string, len(obs))
	tq := time.Now()
	for i, ob := range obs {
		queries[i] = ob.vc.Query(ob)
	}
	if os.Getenv("GOCV_TIMING") != "" {
		fmt.Fprintf(os.Stderr, "timing: query generation %.1fs for %d obligations\n", time.Since(tq).Seconds(), len(obs))
	}
	run := func(idx []int, par int, stage int) {
		var wg sync.WaitGroup
		sem := make(chan struct{}, par)
		for _, i := range idx {
			i := i
			wg.Add(1)
			sem <- struct{}{}
			go func() {
				defer wg.Done()
				defer func() { <-sem }()
				s.discharge(obs[i], queries[i], stage)
			}()
		}
		wg.Wait()
	}
	var all, rest []int
	for i := range obs {
		if obs[i].Status != "" {
			continue // decided before solving (function outside the subset)
		}
		all = append(all, i)
	}
	if s.AllAgree {
		run(all, 5, 2)
		return
	}
	ts1 := time.Now()
	run(all, par, 1)
	if os.Getenv("GOCV_TIMING") != "" {
		fmt.Fprintf(os.Stderr, "timing: stage 1 %.1fs\n", time.Since(ts1).Seconds())
	}
	for i, ob := range obs {
		if ob.Status == "" {
			rest = append(rest, i)
		}
	}
	ts2 := time.Now()
	run(rest, 5, 2)
	if os.Getenv("GOCV_TIMING") != "" {
		fmt.Fprintf(os.Stderr, "timing: stage 2 %.1fs for %d\n", time.Since(ts2).Seconds(), len(rest))
	}
	// last resort for what is still undecided (not refuted): once more, three at a time, with another seed and twice
	// the time - a solver starved by a loaded machine must not turn into an alarm.
	var again []int
	for i, ob := range obs {
		if ob.Status == "undecided" && !ob.Cover && !ob.Short && !strings.HasPrefix(ob.Solver, "function outside") {
			again = append(again, i)
		}
	}
	if len(again) > 0 && len(again) <= 12 {
		saveT, saveSeed := s.TimeoutS, s.Seed
		s.TimeoutS, s.Seed = 2*s.TimeoutS, s.Seed+7
		for _, i := range again {
			obs[i].Status = ""
		}
		run(again, 3, 2)
		s.TimeoutS, s.Seed = saveT, saveSeed
	}
}

// splitDischarge proves an obligation path by path (every join above it resolved to one incoming edge).
func (s *Solver) splitDischarge(ob *Obligation) bool {
	ctx := context.Background()
	var total float64
	used := map[string]bool{}
	for i, q := range ob.split {
		text := "(set-logic ALL)\n" + q
		sum := sha256.Sum256([]byte(text))
		h := hex.EncodeToString(sum[:])
		// the file name is unique per call: obligations with identical text run concurrently and each removes its file when done
	file := filepath.Join(s.WorkDir, "q", h[:2], fmt.Sprintf("%s-%d-%d.smt2", h, os.Getpid(), atomic.AddInt64(&queryFileSeq, 1)))
		os.MkdirAll(filepath.Dir(file), 0o755)
		os.WriteFile(file, []byte(text), 0o644)
		ok := false
		// race the solvers on this path
		type r struct {
			res, solver string
			el          float64
		}
		cctx, cancel := context.WithCancel(ctx)
		ch := make(chan r, len(solvers))
		for _, sc := range solvers {
			sc := sc
			go func() {
				res, _, el := runSolver(cctx, sc, file, s.TimeoutS, s.Seed)
				ch <- r{res, sc.Name, el}
			}()
		}
		for j := 0; j < len(solvers); j++ {
			x := <-ch
			if !ok && x.res == "unsat" {
				ok = true
				total += x.el
				used[x.solver] = true
				cancel()
			}
		}
		cancel()
		if ok {
			os.Remove(file)
		}
		if !ok {
			ob.Output += fmt.Sprintf("\npath %d/%d not discharged: %s", i+1, len(ob.split), file)
			return false
		}
	}
	var us []string
	for u := range used {
		us = append(us, u)
	}
	ob.Status = "discharged"
	ob.Solver = fmt.Sprintf("%s(split into %d path/conjunct queries)", strings.Join(us, "+"), len(ob.split))
	ob.TimeS = total
	return true
}
