package main

import (
	"fmt"
	"go/ast"
	"go/constant"
	"go/token"
	"go/types"
	"strings"
)

// GlobalFacts: initial values of package-level variables that no function ever assigns.
// Derived mechanically from the initializer expressions (constants / composite literals of constants).
func (w *World) GlobalFacts() map[string][]string {
	if w.globalFacts != nil {
		return w.globalFacts
	}
	w.globalFacts = map[string][]string{}
	// globals written by any function other than package initializers
	written := map[string]bool{}
	for _, fn := range w.FuncList {
		if fn.Name() == "init" || strings.HasPrefix(fn.Name(), "init#") {
			continue
		}
		ws := w.writeSetOf(fn)
		for n := range ws.arrs {
			if strings.HasPrefix(n, "glob!") {
				written[n] = true
			}
		}
	}
	w.WrittenGlobals = written
	for path := range w.SSAPkgs {
		pkg := w.AllPkgs[path]
		if pkg == nil {
			continue
		}
		for _, f := range pkg.Syntax {
			for _, d := range f.Decls {
				gd, ok := d.(*ast.GenDecl)
				if !ok || gd.Tok != token.VAR {
					continue
				}
				for _, sp := range gd.Specs {
					vs := sp.(*ast.ValueSpec)
					if len(vs.Values) != len(vs.Names) {
						continue
					}
					for i, name := range vs.Names {
						obj, ok := pkg.TypesInfo.Defs[name].(*types.Var)
						if !ok {
							continue
						}
						gname := "glob!" + sanitize(obj.Pkg().Name()+"."+obj.Name())
						if written[gname] {
							continue
						}
						term := gname + "@0"
						facts := w.initFacts(pkg.TypesInfo, term, obj.Type(), vs.Values[i])
						if len(facts) > 0 {
							w.globalFacts[term] = facts
						}
					}
				}
			}
		}
	}
	return w.globalFacts
}

func (w *World) constLit(v constant.Value) (string, bool) {
	switch v.Kind() {
	case constant.Bool:
		return fmt.Sprint(constant.BoolVal(v)), true
	case constant.Int:
		s := v.ExactString()
		if strings.HasPrefix(s, "-") {
			s = "(- " + s[1:] + ")"
		}
		return s, true
	case constant.String:
		return w.S.StrLit(constant.StringVal(v)), true
	}
	return "", false
}

func (w *World) initFacts(info *types.Info, term string, ty types.Type, e ast.Expr) []string {
	if tv, ok := info.Types[e]; ok && tv.Value != nil {
		if lit, ok := w.constLit(tv.Value); ok {
			return []string{"(= " + term + " " + lit + ")"}
		}
		return nil
	}
	cl, ok := e.(*ast.CompositeLit)
	if !ok {
		return nil
	}
	sl, ok := ty.Underlying().(*types.Slice)
	if !ok {
		return nil
	}
	so := w.S.SortOf(ty)
	_ = sl
	var facts []string
	for i, elt := range cl.Elts {
		if _, isKV := elt.(*ast.KeyValueExpr); isKV {
			return nil
		}
		tv, ok := info.Types[elt]
		if !ok || tv.Value == nil {
			return nil
		}
		lit, ok := w.constLit(tv.Value)
		if !ok {
			return nil
		}
		facts = append(facts, fmt.Sprintf("(= (select %s %d) %s)", slArr(so, term), i, lit))
	}
	facts = append(facts, fmt.Sprintf("(= %s %d)", slLen(so, term), len(cl.Elts)), "(not "+slNil(so, term)+")")
	return facts
}
