package main

import (
	"encoding/json"
	"flag"
	"fmt"
	"os"
	"os/exec"
	"path/filepath"
	"regexp"
	"sort"
	"strconv"
	"strings"
	"time"
)

const verifDir = "/verif"

type KnownFinding struct {
	Kind       string `json:"kind"` // known | fixed
	ID         string `json:"id"`
	Property   string `json:"property"`
	Properties []string `json:"properties,omitempty"`
	Obligation string `json:"obligation,omitempty"` // base obligation name
	What       string `json:"what"`
	Commit     string `json:"commit,omitempty"`
	ReplayPkg  string `json:"replay_pkg,omitempty"`  // package dir relative to repo
	ReplayTest string `json:"replay_test,omitempty"` // file under /verif/replay
	ReplayRun  string `json:"replay_run,omitempty"`  // test name
	CarveOut   string `json:"carve_out,omitempty"`   // spec expression over the function's inputs describing the failing class
}

type KnownFile struct {
	Findings []KnownFinding `json:"findings"`
}

func loadKnown() *KnownFile {
	kf := &KnownFile{}
	data, err := os.ReadFile(filepath.Join(verifDir, "known_findings.json"))
	if err == nil {
		if err := json.Unmarshal(data, kf); err != nil {
			fmt.Fprintln(os.Stderr, "known_findings.json:", err)
			os.Exit(3)
		}
	}
	return kf
}

func (k *KnownFinding) props() []string {
	if len(k.Properties) > 0 {
		return k.Properties
	}
	return []string{k.Property}
}

type Baseline struct {
	// property -> base obligation names discharged on the unchanged tree
	Discharged map[string][]string `json:"discharged"`
}

func loadBaseline() *Baseline {
	b := &Baseline{Discharged: map[string][]string{}}
	data, err := os.ReadFile(filepath.Join(verifDir, "baseline_obligations.json"))
	if err == nil {
		json.Unmarshal(data, b)
	}
	return b
}

var reInstance = regexp.MustCompile(`~\d+$`)

func baseName(n string) string { return reInstance.ReplaceAllString(n, "") }

func hasTag(tags []string, id string) bool {
	for _, t := range tags {
		if t == id {
			return true
		}
	}
	return false
}

// funcTags: union of clause tags of a contract.
func funcTags(sp *FuncSpec) []string {
	if sp == nil {
		return nil
	}
	seen := map[string]bool{}
	var out []string
	add := func(cs []*Clause) {
		for _, c := range cs {
			for _, t := range c.Tags {
				if !seen[t] {
					seen[t] = true
					out = append(out, t)
				}
			}
		}
	}
	for _, t := range sp.SortTags {
		if !seen[t] {
			seen[t] = true
			out = append(out, t)
		}
	}
	for _, cs := range sp.Asserts {
		add(cs)
	}
	for _, cs := range sp.Before {
		add(cs)
	}
	add(sp.Requires)
	add(sp.Ensures)
	for _, l := range sp.Loops {
		add(l.Invs)
	}
	sort.Strings(out)
	return out
}

type funcReport struct {
	Name   string `json:"name"`
	Status string `json:"status"`
	Obs    int    `json:"obligations"`
	Notes  []string `json:"notes,omitempty"`
}

// runReplayTest runs an overlay Go test against the real code; returns (failed?, output).
func runReplayTest(repo string, kf *KnownFinding) (bool, string, error) {
	src := filepath.Join(verifDir, "replay", kf.ReplayTest)
	if _, err := os.Stat(src); err != nil {
		return false, "", err
	}
	tmp, err := os.MkdirTemp("", "gocv-replay")
	if err != nil {
		return false, "", err
	}
	defer os.RemoveAll(tmp)
	dst := filepath.Join(repo, kf.ReplayPkg, "zz_verif_replay_"+strings.ToLower(kf.ID)+"_test.go")
	ov := map[string]map[string]string{"Replace": {dst: src}}
	data, _ := json.Marshal(ov)
	ovf := filepath.Join(tmp, "overlay.json")
	os.WriteFile(ovf, data, 0o644)
	cmd := exec.Command("go", "test", "-mod=mod", "-overlay", ovf, "-vet=off", "-count=1", "-timeout", "120s", "-run", "^"+kf.ReplayRun+"$", "./"+kf.ReplayPkg)
	cmd.Dir = repo
	cmd.Env = append(os.Environ(), "GOFLAGS=-mod=mod", "GOPROXY=off", "GOSUMDB=off", "GOTOOLCHAIN=local")
	out, err := cmd.CombinedOutput()
	text := string(out)
	if err == nil {
		if strings.Contains(text, "no tests to run") {
			return false, text, fmt.Errorf("replay test %s not found", kf.ReplayRun)
		}
		return false, text, nil
	}
	if strings.Contains(text, "--- FAIL") || strings.Contains(text, "panic:") {
		return true, text, nil
	}
	return false, text, fmt.Errorf("replay test did not build or run: %s", firstLines(text, 6))
}

func cmdCheck(args []string) {
	if len(args) < 1 {
		fmt.Fprintln(os.Stderr, "usage: gocv check <id> [--tier quick|thorough]")
		os.Exit(2)
	}
	id := args[0]
	fs := flag.NewFlagSet("check", flag.ExitOnError)
	tier := fs.String("tier", "quick", "quick|thorough")
	repo := fs.String("repo", "/repo", "repository")
	writeBaseline := fs.Bool("write-baseline", false, "record discharged obligations as the baseline (maintenance)")
	fs.Parse(args[1:])
	if env := os.Getenv("VERIF_TIER"); env != "" && !flagSet(fs, "tier") {
		*tier = env
	}
	seed := 0
	if s := os.Getenv("VERIF_SEED"); s != "" {
		seed, _ = strconv.Atoi(s)
	}
	code := runCheck(id, *tier, *repo, seed, *writeBaseline)
	os.Exit(code)
}

func flagSet(fs *flag.FlagSet, name string) bool {
	found := false
	fs.Visit(func(f *flag.Flag) {
		if f.Name == name {
			found = true
		}
	})
	return found
}

type obGroup struct {
	base string
	obs  []*Obligation
}

func runCheck(id, tier, repo string, seed int, writeBaseline bool) int {
	t0 := time.Now()
	w, err := LoadWorld(repo, []string{"./pkg/...", "./cmd/..."})
	if err != nil {
		fmt.Fprintln(os.Stderr, "engine error:", err)
		return 3
	}
	if err := w.LoadAllSpecs(filepath.Join(verifDir, "spec")); err != nil {
		fmt.Fprintln(os.Stderr, "engine error: spec:", err)
		return 3
	}
	loadS := time.Since(t0).Seconds()
	known := loadKnown()
	baseline := loadBaseline()

	// translate every function under contract that serves this property
	var all []*Obligation
	var funcs []funcReport
	mismatched := map[string]string{} // function -> translation error
	var unsupported, notes []string
	noteSet := map[string]bool{}
	for _, fn := range w.FuncList {
		sp := w.specFor(fn)
		if sp == nil || sp.Opaque {
			continue
		}
		ft := funcTags(sp)
		// C12 (no panic) is served by the panic-freedom obligations of EVERY function under contract, whatever property
		// its clauses are tagged with: safety.* and the preconditions of callees (a violated dependency precondition is a crash)
		safetyOnly := false
		if !hasTag(ft, id) {
			if id != "C12" || sp.NoSafety {
				continue
			}
			safetyOnly = true
		}
		vc, err := w.TranslateFunction(fn, VerifyOpts{SafetyTags: ft})
		if err != nil {
			// the contract no longer fits the function (e.g. an invariant names a variable that is gone): none of the
			// function's obligations can be generated; if they were in the baseline this is reported as a violation below
			mismatched[shortFuncName(fn)] = err.Error()
			fmt.Fprintln(os.Stderr, "contract does not fit the code:", err)
			continue
		}
		n := 0
		for _, ob := range vc.obs {
			if len(vc.unsupported) > 0 {
				// the function uses a construct the generator does not model: none of its obligations can be trusted
				ob.Status = "undecided"
				ob.Solver = "function outside the verified subset: " + strings.Join(vc.unsupported, "; ")
				ob.Output = ob.Solver
			}
			if len(ob.Tags) == 0 {
				ob.Tags = ft
			}
			if ob.Kind == "cover" {
				ob.Tags = ft
			}
			if hasTag(ob.Tags, id) || (safetyOnly && (strings.Contains(ob.Name, "#safety.") || strings.Contains(ob.Name, "#call.requires@"))) {
				all = append(all, ob)
				n++
			}
		}
		st := "contract"
		if len(vc.unsupported) > 0 {
			st = "outside_subset"
			unsupported = append(unsupported, vc.unsupported...)
		}
		funcs = append(funcs, funcReport{Name: shortFuncName(fn), Status: st, Obs: n, Notes: vc.notes})
		for _, nn := range vc.notes {
			if !noteSet[nn] {
				noteSet[nn] = true
				notes = append(notes, nn)
			}
		}
	}
	// lemmas tagged with this property
	lemObs, err := w.LemmaObligations(id)
	if err != nil {
		fmt.Fprintln(os.Stderr, "engine error: lemma:", err)
		return 3
	}
	all = append(all, lemObs...)
	if len(all) == 0 && len(mismatched) == 0 {
		fmt.Fprintf(os.Stderr, "engine error: no obligations generated for %s (vacuous check)\n", id)
		return 3
	}
	// obligations that were never discharged on the unchanged tree are not part of the claim: try them briefly only
	if !writeBaseline && len(baseline.Discharged[id]) > 0 {
		inBase := map[string]bool{}
		for _, n := range baseline.Discharged[id] {
			inBase[n] = true
		}
		for _, ob := range all {
			if !inBase[baseName(ob.Name)] && ob.Kind != "cover" {
				ob.Short = true
			}
		}
	}
	// obligations pinned by a known finding are expected to stay open: do not spend the long timeouts on them
	for _, ob := range all {
		for i := range known.Findings {
			kf := &known.Findings[i]
			if kf.Kind == "known" && kf.Obligation != "" && baseName(ob.Name) == kf.Obligation {
				ob.Short = true
			}
		}
	}
	solver := NewSolver(filepath.Join(verifDir, ".work"))
	solver.Seed = seed
	if tier == "thorough" {
		solver.TimeoutS = 120
		solver.QuickS = 10
		solver.AllAgree = true
		solver.NoCache = true
	} else {
		// every obligation of the baselines discharges in stage 1 (a few seconds); 30 s (and 60 s for the final retry) keeps a
		// run on a changed tree - where some obligations stay open through all stages - within a few minutes
		solver.TimeoutS = 30
		solver.QuickS = 6
	}
	if os.Getenv("GOCV_TIMING") != "" {
		fmt.Fprintf(os.Stderr, "timing: load+translate %.1fs\n", time.Since(t0).Seconds())
	}
	t1 := time.Now()
	solver.DischargeAll(all, 14)
	solveWall := time.Since(t1).Seconds()
	if os.Getenv("GOCV_TIMING") != "" {
		for _, ob := range all {
			if ob.TimeS > 3 || ob.Status != "discharged" {
				fmt.Fprintf(os.Stderr, "timing: %s %s %s %.1fs\n", ob.Status, ob.Name, ob.Solver, ob.TimeS)
			}
		}
	}

	// group by base name
	groups := map[string]*obGroup{}
	var order []string
	for _, ob := range all {
		b := baseName(ob.Name)
		g := groups[b]
		if g == nil {
			g = &obGroup{base: b}
			groups[b] = g
			order = append(order, b)
		}
		g.obs = append(g.obs, ob)
	}
	sort.Strings(order)
	groupOK := func(g *obGroup) bool {
		for _, ob := range g.obs {
			if ob.Status != "discharged" {
				if ob.Kind == "cover" && !strings.Contains(ob.Name, "#cover.requires") {
					continue // an unreachable return / loop body is dead code, not a proof failure (reported as a note)
				}
				return false
			}
		}
		return true
	}
	// known findings for this property, by obligation
	kfByOb := map[string]*KnownFinding{}
	for i := range known.Findings {
		k := &known.Findings[i]
		if k.Kind == "known" && hasTag(k.props(), id) && k.Obligation != "" {
			kfByOb[k.Obligation] = k
		}
	}
	inBaseline := map[string]bool{}
	for _, n := range baseline.Discharged[id] {
		inBaseline[n] = true
	}
	for _, ob := range all {
		if ob.Kind == "cover" && ob.Status == "failed" {
			if strings.Contains(ob.Name, "#cover.requires") {
				fmt.Fprintf(os.Stderr, "engine error: contradictory precondition (vacuous contract): %s\n", ob.Name)
				return 3
			}
			notes = append(notes, "unreachable path (dead code or infeasible under the precondition): "+ob.Name+" at "+ob.Pos)
		}
		if ob.Kind == "cover" && ob.Status != "failed" && ob.Status != "discharged" && !strings.HasPrefix(ob.Solver, "function outside") {
			fmt.Fprintf(os.Stderr, "engine error: vacuity guard %s could not be run: %s\n", ob.Name, ob.Solver)
			return 3
		}
	}
	var violations []string
	outsideReported := map[string]bool{}
	var knownLines []string
	var undecided []string
	var newDischarged []string
	discharged := 0
	counted := 0
	byBackend := map[string]int{}
	var solverTime float64
	os.MkdirAll(filepath.Join(verifDir, "replays", id), 0o755)
	exit := 0
	for _, b := range order {
		g := groups[b]
		for _, ob := range g.obs {
			solverTime += ob.TimeS
			if ob.Status == "discharged" {
				s := ob.Solver
				if i := strings.IndexAny(s, " ["); i > 0 {
					s = s[:i]
				}
				byBackend[s]++
			}
		}
		ok := groupOK(g)
		if k, isKF := kfByOb[b]; isKF {
			// pinned by a known finding: not counted as an obligation of the claim
			if ok {
				fmt.Printf("NOTE: obligation %s pinned by %s is now discharged (finding no longer manifests in the contract)\n", b, k.ID)
				continue
			}
			failed, out, err := runReplayTest(repo, k)
			if err != nil {
				fmt.Fprintf(os.Stderr, "engine error: replay of %s: %v\n", k.ID, err)
				return 3
			}
			if failed {
				knownLines = append(knownLines, fmt.Sprintf("KNOWN-FINDING: property=%s %s: %s [obligation %s; replayed on the real code: still fails]", id, k.ID, k.What, b))
			} else {
				// the pinned input no longer fails but the obligation is still open: a different violation
				rp := writeReplay(id, g, "pinned input of "+k.ID+" passes on the real code but the obligation is not discharged\n"+out)
				violations = append(violations, fmt.Sprintf("VIOLATION property=%s replay=%s obligation=%s no-failing-input-found", id, rp, b))
			}
			continue
		}
		counted++
		if ok {
			discharged++
			if !inBaseline[b] {
				newDischarged = append(newDischarged, b)
			}
			continue
		}
		if inBaseline[b] && strings.HasPrefix(g.obs[0].Solver, "function outside") {
			// one report per function that left the verified subset
			fn := b
			if i := strings.Index(fn, "#"); i > 0 {
				fn = fn[:i]
			}
			if outsideReported[fn] {
				continue
			}
			outsideReported[fn] = true
			g.base = fn + "#subset"
			rp := writeReplay(id, g, g.obs[0].Solver)
			violations = append(violations, fmt.Sprintf("VIOLATION property=%s replay=%s obligation=%s no-failing-input-found", id, rp, g.base))
			continue
		}
		if inBaseline[b] || len(baseline.Discharged[id]) == 0 && !writeBaseline && false {
			rp := writeReplay(id, g, "")
			violations = append(violations, fmt.Sprintf("VIOLATION property=%s replay=%s obligation=%s no-failing-input-found", id, rp, b))
		} else {
			undecided = append(undecided, b)
		}
	}
	// lost coverage: baseline obligations that were not generated
	var lost []string
	for _, n := range baseline.Discharged[id] {
		if _, ok := groups[n]; !ok {
			lost = append(lost, n)
		}
	}
	// functions whose contract could not be translated: their baseline obligations are not discharged
	{
		reported := map[string]bool{}
		var stillLost []string
		for _, n := range lost {
			fn := n
			if i := strings.Index(fn, "#"); i > 0 {
				fn = fn[:i]
			}
			if msg, bad := mismatched[fn]; bad {
				if !reported[fn] {
					reported[fn] = true
					g := &obGroup{base: fn + "#contract"}
					rp := writeReplay(id, g, "the contract of "+fn+" does not fit the code any more: "+msg)
					violations = append(violations, fmt.Sprintf("VIOLATION property=%s replay=%s obligation=%s no-failing-input-found", id, rp, g.base))
				}
				continue
			}
			stillLost = append(stillLost, n)
		}
		lost = stillLost
	}
	for _, l := range knownLines {
		fmt.Println(l)
	}
	for _, u := range undecided {
		fmt.Printf("UNDECIDED obligation=%s (never discharged on the unchanged tree; not part of the claim)\n", u)
	}
	for _, l := range lost {
		fmt.Printf("COVERAGE-REDUCED obligation=%s is no longer generated\n", l)
	}
	for _, o := range w.Orphaned {
		fmt.Printf("COVERAGE-REDUCED contract %s has no function\n", o)
	}
	for _, v := range violations {
		fmt.Println(v)
		exit = 1
	}
	if writeBaseline {
		var names []string
		for _, b := range order {
			if _, isKF := kfByOb[b]; isKF {
				continue
			}
			if groupOK(groups[b]) {
				names = append(names, b)
			}
		}
		baseline.Discharged[id] = names
		data, _ := json.MarshalIndent(baseline, "", " ")
		os.WriteFile(filepath.Join(verifDir, "baseline_obligations.json"), data, 0o644)
		fmt.Printf("baseline for %s: %d obligations\n", id, len(names))
	}
	// evidence
	var samples []map[string]string
	for i, b := range order {
		if i%max(1, len(order)/6) == 0 && len(samples) < 8 {
			ob := groups[b].obs[0]
			samples = append(samples, map[string]string{"obligation": b, "kind": ob.Kind, "clause": ob.Src, "at": ob.Pos, "status": ob.Status, "solver": ob.Solver})
		}
	}
	trusted := trustedBase(w, notes)
	var kfs []string
	for _, l := range knownLines {
		kfs = append(kfs, l)
	}
	ev := map[string]interface{}{
		"property_id": id,
		"tier":        tier,
		"seed":        seed,
		"level":       "proof",
		"coverage": map[string]interface{}{
			"obligations":              counted - len(undecided),
			"discharged":               discharged,
			"obligation_instances":     len(all),
			"checker_cmd":              "gocv check " + id + " --tier " + tier + " (VCs from go/ssa of /repo with -tags verif; discharged by z3-new 5.1.0 / z3 4.8.12 / cvc5 1.0)",
			"trusted_base":             trusted,
			"functions_under_contract": funcs,
			"obligations_by_backend":   byBackend,
			"solver_time_s":            round2(solverTime),
			"solve_wall_s":             round2(solveWall),
			"load_s":                   round2(loadS),
			"samples":                  samples,
			"undecided_unclaimed":      undecided,
			"new_since_baseline":       newDischarged,
			"lost_coverage":            lost,
			"orphaned_contracts":       w.Orphaned,
			"outside_subset":           unsupported,
			"known_findings":           kfs,
			"bounded":                  []string{},
			"solver_stats":             solver.Stats,
		},
		"assumptions": assumptionsFor(w, notes),
		"wall_s":      round2(time.Since(t0).Seconds()),
		"violations":  len(violations),
	}
	os.MkdirAll(filepath.Join(verifDir, "evidence"), 0o755)
	data, _ := json.MarshalIndent(ev, "", " ")
	os.WriteFile(filepath.Join(verifDir, "evidence", id+".json"), data, 0o644)
	fmt.Printf("%s tier=%s obligations=%d discharged=%d known-findings=%d undecided=%d violations=%d wall=%.1fs\n",
		id, tier, counted-len(undecided), discharged, len(knownLines), len(undecided), len(violations), time.Since(t0).Seconds())
	return exit
}

func round2(f float64) float64 { return float64(int(f*100)) / 100 }

func writeReplay(id string, g *obGroup, extra string) string {
	dir := filepath.Join(verifDir, "replays", id)
	os.MkdirAll(dir, 0o755)
	name := sanitizeLabel(strings.NewReplacer("/", "_", "(", "", ")", "", "*", "", "#", "-").Replace(g.base))
	path := filepath.Join(dir, name+".json")
	var inst []map[string]interface{}
	for _, ob := range g.obs {
		if ob.Status == "discharged" {
			continue
		}
		q := ""
		if ob.Output != "" {
			qf := strings.SplitN(ob.Output, "\n", 2)[0]
			if data, err := os.ReadFile(qf); err == nil {
				qn := filepath.Join(dir, name+"_"+sanitizeLabel(strings.ReplaceAll(ob.Name[len(g.base):], "~", "i"))+".smt2")
				os.WriteFile(qn, data, 0o644)
				q = qn
			}
		}
		inst = append(inst, map[string]interface{}{"instance": ob.Name, "status": ob.Status, "solvers": ob.Solver, "at": ob.Pos, "clause": ob.Src, "query": q})
	}
	rec := map[string]interface{}{
		"property":        id,
		"obligation":      g.base,
		"failed":          inst,
		"counterexample":  nil,
		"note":            "no-failing-input-found: the obligation was discharged on the unchanged tree and is not discharged now; the solver gave no model (quantified VC). " + extra,
		"replay_cmd":      "./bin/gocv replay " + path,
	}
	data, _ := json.MarshalIndent(rec, "", " ")
	os.WriteFile(path, data, 0o644)
	return path
}

func trustedBase(w *World, notes []string) []string {
	tb := []string{
		"gocv VC generator (this repository, /verif/gocv) and golang.org/x/tools/go/ssa v0.29.0 (NaiveForm)",
		"SMT solvers z3-new 5.1.0, z3 4.8.12, cvc5 1.0 (an obligation counts as discharged when one answers unsat)",
	}
	var ext []string
	for name, sp := range w.Specs.Funcs {
		if sp.Extern && sp.Used {
			ext = append(ext, name)
		}
	}
	sort.Strings(ext)
	for _, e := range ext {
		tb = append(tb, "assumed contract: "+e)
	}
	return tb
}

func assumptionsFor(w *World, notes []string) []string {
	as := []string{
		"A-int: Go integers are mathematical integers; values read from typed locations are within the type's range; conversions between integer types are identity",
		"A-str: strings are abstract values (no string theory); literals are pairwise distinct",
		"A-append: slices have value semantics (append/make never alias an existing backing array)",
		"A-conc: no concurrency (mutex operations and deferred unlocks are no-ops)",
		"A-term: termination is not proved",
		"A-alloc: allocation never fails; wfHeap: every stored reference is nil or allocated",
		"closed-world dispatch on interfaces declared in the repository",
	}
	sort.Strings(notes)
	for _, n := range notes {
		as = append(as, "note: "+n)
	}
	return as
}

// cmdReplay re-runs the stored queries of a replay file.
func cmdReplay(args []string) {
	if len(args) < 1 {
		fmt.Fprintln(os.Stderr, "usage: gocv replay <file>")
		os.Exit(2)
	}
	data, err := os.ReadFile(args[0])
	if err != nil {
		fmt.Fprintln(os.Stderr, err)
		os.Exit(2)
	}
	var rec struct {
		Property   string `json:"property"`
		Obligation string `json:"obligation"`
		Failed     []struct {
			Instance string `json:"instance"`
			Query    string `json:"query"`
			Clause   string `json:"clause"`
			At       string `json:"at"`
		} `json:"failed"`
	}
	json.Unmarshal(data, &rec)
	fmt.Printf("property %s obligation %s\n", rec.Property, rec.Obligation)
	bad := 0
	for _, f := range rec.Failed {
		fmt.Printf("  instance %s at %s\n    clause: %s\n", f.Instance, f.At, f.Clause)
		for _, sc := range solvers {
			args := sc.Cmd(f.Query, 30, 0)
			out, _ := exec.Command(args[0], args[1:]...).CombinedOutput()
			res := strings.TrimSpace(strings.SplitN(string(out), "\n", 2)[0])
			fmt.Printf("    %s: %s\n", sc.Name, res)
			if res != "unsat" {
				bad++
			}
		}
	}
	if bad > 0 {
		fmt.Printf("VIOLATION property=%s replay=%s\n", rec.Property, args[0])
		os.Exit(1)
	}
}
