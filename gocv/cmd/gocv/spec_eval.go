package main

import (
	"fmt"
	"go/constant"
	"go/types"
	"strings"
)

// SType is the type of a spec expression.
type SType struct {
	Go    types.Type
	Set   *SType // set[T]
	IsNil bool
	Lit   bool // untyped integer literal
}

var (
	stBool = &SType{Go: types.Typ[types.Bool]}
	stInt  = &SType{Go: types.Typ[types.Int]}
	stStr  = &SType{Go: types.Typ[types.String]}
)

func (t *SType) String() string {
	if t.IsNil {
		return "nil"
	}
	if t.Set != nil {
		return "set[" + t.Set.String() + "]"
	}
	return t.Go.String()
}

func (t *SType) Sort(s *Sorts) string {
	if t.Set != nil {
		return "(Array " + t.Set.Sort(s) + " Bool)"
	}
	if t.IsNil {
		return "Int"
	}
	return s.SortOf(t.Go)
}

// HeapState maps heap-array base names to their current version term.
type HeapState struct {
	vers map[string]string
	next string
}

func (h *HeapState) clone() *HeapState {
	n := &HeapState{vers: make(map[string]string, len(h.vers)), next: h.next}
	for k, v := range h.vers {
		n.vers[k] = v
	}
	return n
}

// ArrInfo describes a heap array family.
type ArrInfo struct {
	Name    string
	Sort    string
	RefKind int // 1: cells hold references (pointer/map values); 2: cells hold maps from keys to references
}

func isRefType(t types.Type) bool {
	switch types.Unalias(t).Underlying().(type) {
	case *types.Pointer, *types.Map:
		return true
	}
	return false
}

// Heap registry lives in World (shared across functions).
type HeapReg struct {
	arrs map[string]*ArrInfo
}

func (w *World) heapArr(name, sort string) *ArrInfo {
	if w.heap == nil {
		w.heap = &HeapReg{arrs: map[string]*ArrInfo{}}
	}
	if a, ok := w.heap.arrs[name]; ok {
		return a
	}
	a := &ArrInfo{Name: name, Sort: sort}
	w.heap.arrs[name] = a
	return a
}

func (w *World) fieldArr(t types.Type, idx int) *ArrInfo {
	si := w.S.structInfo(t)
	si.Fields[idx] = true
	f := si.T.Field(idx)
	a := w.heapArr("H!"+strings.TrimPrefix(si.Sort, "V_")+"!"+sanitize(f.Name()), "(Array Int "+w.S.SortOf(f.Type())+")")
	if isRefType(f.Type()) {
		a.RefKind = 1
	}
	return a
}

func (w *World) boxArr(t types.Type) *ArrInfo {
	so := w.S.SortOf(t)
	return w.heapArr("B!"+sanitize(so), "(Array Int "+so+")")
}

func (w *World) mapArrs(m *types.Map) (dom, val *ArrInfo) {
	ks, vs := w.S.SortOf(m.Key()), w.S.SortOf(m.Elem())
	// one array family per Go map type (key and element types by identity): maps of different static types never alias
	n := w.typeKey(m.Key()) + "!" + w.typeKey(m.Elem())
	mvArr := w.heapArr("Mv!"+n, "(Array Int (Array "+ks+" "+vs+"))")
	if vs == "Int" {
		// the value family is shared by all Int-sorted value types: references only if this map type holds references
		if isRefType(m.Elem()) {
			if mvArr.RefKind == 0 {
				mvArr.RefKind = 2
			}
		} else {
			mvArr.RefKind = -1
		}
	}
	return w.heapArr("Md!"+n, "(Array Int (Array "+ks+" Bool))"), mvArr
}

// typeKey is a deterministic, readable name of a Go type, injective on the types met in one run.
func (w *World) typeKey(t types.Type) string {
	t = types.Unalias(t)
	switch u := t.(type) {
	case *types.Named:
		full := u.String()
		if _, isStruct := u.Underlying().(*types.Struct); isStruct {
			full = structKey(u)
		}
		short := full
		if i := strings.LastIndex(short, "/"); i >= 0 {
			if j := strings.LastIndex(short[:i], "/"); j >= 0 {
				short = short[j+1:]
			}
		}
		short = sanitize(strings.ReplaceAll(short, "/", "_"))
		if w.typeKeys == nil {
			w.typeKeys = map[string]string{}
		}
		if prev, ok := w.typeKeys[short]; ok && prev != full {
			panic("type name collision in heap array naming: " + prev + " vs " + full)
		}
		w.typeKeys[short] = full
		return short
	case *types.Pointer:
		return "P" + w.typeKey(u.Elem())
	case *types.Slice:
		return "S" + w.typeKey(u.Elem())
	case *types.Array:
		return "A" + w.typeKey(u.Elem())
	case *types.Map:
		return "M" + w.typeKey(u.Key()) + "_" + w.typeKey(u.Elem())
	case *types.Basic:
		return sanitize(u.Name())
	case *types.Struct:
		if c, ok := structCanon[u]; ok {
			return sanitize(c)
		}
	}
	return sanitize(w.S.SortOf(t))
}

func (w *World) ghostArr(g *GhostField, ctx *ResCtx) *ArrInfo {
	rt := w.resolveType(g.Ret, ctx)
	return w.heapArr("G!"+g.Name, "(Array Int "+rt.Sort(w.S)+")")
}

// ResCtx: name resolution context for spec text.
type ResCtx struct {
	Pkg     *types.Package
	Imports map[string]string
}

func (w *World) ctxFor(pkgPath, file string) *ResCtx {
	c := &ResCtx{Imports: map[string]string{}}
	if p, ok := w.AllPkgs[pkgPath]; ok {
		c.Pkg = p.Types
		for _, imp := range p.Types.Imports() {
			c.Imports[imp.Name()] = imp.Path()
		}
		// honour import aliases of the package's files
		for _, f := range p.Syntax {
			for _, is := range f.Imports {
				if is.Name != nil && is.Name.Name != "_" && is.Name.Name != "." {
					c.Imports[is.Name.Name] = strings.Trim(is.Path.Value, "\"")
				}
			}
		}
	}
	if w.Specs != nil {
		for k, v := range w.Specs.Imports[file] {
			c.Imports[k] = v
		}
	}
	return c
}

func (w *World) resolveType(te *TypeExpr, ctx *ResCtx) *SType {
	switch te.Kind {
	case "resolved":
		return &SType{Go: te.Go}
	case "ptr":
		return &SType{Go: types.NewPointer(w.resolveType(te.Elem, ctx).Go)}
	case "slice":
		return &SType{Go: types.NewSlice(w.resolveType(te.Elem, ctx).Go)}
	case "map":
		return &SType{Go: types.NewMap(w.resolveType(te.Key, ctx).Go, w.resolveType(te.Elem, ctx).Go)}
	case "set":
		return &SType{Set: w.resolveType(te.Elem, ctx)}
	case "emptystruct":
		return &SType{Go: types.NewStruct(nil, nil)}
	}
	if te.Pkg != "" {
		path, ok := ctx.Imports[te.Pkg]
		if !ok {
			panic("unknown package " + te.Pkg + " in spec type " + te.String())
		}
		p, ok := w.AllPkgs[path]
		if !ok {
			panic("package not loaded: " + path)
		}
		o := p.Types.Scope().Lookup(te.Name)
		if o == nil {
			panic("unknown type " + te.String())
		}
		return &SType{Go: o.Type()}
	}
	switch te.Name {
	case "Str":
		return stStr
	case "Ref":
		return &SType{Go: types.Typ[types.UnsafePointer]}
	case "any":
		return &SType{Go: types.NewInterfaceType(nil, nil)}
	}
	if ctx.Pkg != nil {
		if o := ctx.Pkg.Scope().Lookup(te.Name); o != nil {
			if _, ok := o.(*types.TypeName); ok {
				return &SType{Go: o.Type()}
			}
		}
	}
	if o := types.Universe.Lookup(te.Name); o != nil {
		if _, ok := o.(*types.TypeName); ok {
			return &SType{Go: o.Type()}
		}
	}
	panic("unknown type " + te.String())
}

type binding struct {
	term string
	typ  *SType
	boxT types.Type // non-nil: term is a reference to a captured variable of this type; the value lives in the box array
}

// Env is the evaluation environment of a spec expression.
type Env struct {
	w       *World
	vc      *FuncVC
	cur     *HeapState
	old     *HeapState
	vars    map[string]binding
	ctx     *ResCtx
	pre     *HeapState // heap at loop entry (loop invariants only)
	prev    *HeapState // state before the call (after-call assertions only)
	seen    string // term of the current loop's seen array (or "")
	seenKey *SType
	depth   int
	globals func(name string) (binding, bool)
	record  *readSet // dry run: records heap arrays read
	inTrigger bool   // evaluating a quantifier pattern: map membership is the raw domain select
}

type readSet struct {
	arrs map[string]*ArrInfo
	next bool
}

func (e *Env) with(vars map[string]binding) *Env {
	n := *e
	n.vars = map[string]binding{}
	for k, v := range e.vars {
		n.vars[k] = v
	}
	for k, v := range vars {
		n.vars[k] = v
	}
	return &n
}

func (e *Env) arr(a *ArrInfo, h *HeapState) string {
	if e.record != nil {
		e.record.arrs[a.Name] = a
	}
	if v, ok := h.vers[a.Name]; ok {
		return v
	}
	v := a.Name + "@0"
	e.vc.declare(v, a.Sort)
	if e.vc.verNext != nil {
		e.vc.verNext[v] = h.next
	}
	return v
}

func (e *Env) fail(format string, args ...interface{}) {
	panic(fmt.Sprintf("spec error: "+format, args...))
}

func isPtrToStruct(t types.Type) (types.Type, bool) {
	if p, ok := types.Unalias(t).Underlying().(*types.Pointer); ok {
		if _, ok := p.Elem().Underlying().(*types.Struct); ok {
			return p.Elem(), true
		}
	}
	return nil, false
}

// Eval translates a spec expression to an SMT term.
func (e *Env) Eval(x Expr) (string, *SType) {
	S := e.w.S
	switch x := x.(type) {
	case *EInt:
		return x.V, &SType{Go: types.Typ[types.Int], Lit: true}
	case *EBool:
		if x.V {
			return "true", stBool
		}
		return "false", stBool
	case *EStr:
		return S.StrLit(x.V), stStr
	case *ENil:
		return "0", &SType{IsNil: true}
	case *EIdent:
		if b, ok := e.vars[x.Name]; ok {
			if b.boxT != nil {
				return "(select " + e.arr(e.w.boxArr(b.boxT), e.cur) + " " + b.term + ")", b.typ
			}
			return b.term, b.typ
		}
		if e.globals != nil {
			if b, ok := e.globals(x.Name); ok {
				return b.term, b.typ
			}
		}
		if e.ctx.Pkg != nil {
			if o := e.ctx.Pkg.Scope().Lookup(x.Name); o != nil {
				switch o := o.(type) {
				case *types.Const:
					return e.constTerm(o.Val(), o.Type())
				case *types.Var:
					return e.globalVar(o)
				}
			}
		}
		e.fail("unknown identifier %s", x.Name)
	case *EUn:
		t, ty := e.Eval(x.X)
		if x.Op == "!" {
			return "(not " + t + ")", stBool
		}
		return "(- " + t + ")", ty
	case *EBin:
		return e.evalBin(x)
	case *EIte:
		c, _ := e.Eval(x.C)
		a, ta := e.Eval(x.T)
		b, tb := e.Eval(x.E)
		if ta.IsNil {
			a = e.zeroLike(tb)
			ta = tb
		}
		if tb.IsNil {
			b = e.zeroLike(ta)
		}
		return "(ite " + c + " " + a + " " + b + ")", ta
	case *ELet:
		v, tv := e.Eval(x.Val)
		name := fmt.Sprintf("let!%s!%d", x.Name, e.vc.fresh())
		body, tb := e.with(map[string]binding{x.Name: {term: name, typ: tv}}).Eval(x.Body)
		return "(let ((" + name + " " + v + ")) " + body + ")", tb
	case *EField:
		// package-qualified identifier?
		if id, ok := x.X.(*EIdent); ok {
			if _, isVar := e.vars[id.Name]; !isVar {
				if path, ok := e.ctx.Imports[id.Name]; ok {
					if p, ok := e.w.AllPkgs[path]; ok {
						if o := p.Types.Scope().Lookup(x.Name); o != nil {
							switch o := o.(type) {
							case *types.Const:
								return e.constTerm(o.Val(), o.Type())
							case *types.Var:
								return e.globalVar(o)
							}
						}
					}
				}
			}
		}
		t, ty := e.Eval(x.X)
		return e.field(t, ty, x.Name)
	case *EIndex:
		t, ty := e.Eval(x.X)
		i, _ := e.Eval(x.I)
		if ty.Set != nil {
			return "(select " + t + " " + i + ")", stBool
		}
		switch u := types.Unalias(ty.Go).Underlying().(type) {
		case *types.Map:
			_, mv := e.w.mapArrs(u)
			return "(select (select " + e.arr(mv, e.cur) + " " + t + ") " + i + ")", &SType{Go: u.Elem()}
		case *types.Slice:
			so := S.SortOf(ty.Go)
			return "(select " + slArr(so, t) + " " + i + ")", &SType{Go: u.Elem()}
		case *types.Array:
			return "(select " + t + " " + i + ")", &SType{Go: u.Elem()}
		}
		e.fail("cannot index %s of type %s", x.X, ty)
	case *ECall:
		return e.evalCall(x)
	case *EQuant:
		vars := map[string]binding{}
		var decl []string
		for _, v := range x.Vars {
			ty := e.w.resolveType(v.Type, e.ctx)
			name := fmt.Sprintf("%s!q%d", v.Name, e.vc.fresh())
			vars[v.Name] = binding{term: name, typ: ty}
			decl = append(decl, "("+name+" "+ty.Sort(S)+")")
		}
		ne := e.with(vars)
		body, _ := ne.Eval(x.Body)
		var pats []string
		for _, tr := range x.Triggers {
			var ts []string
			valid := true
			for _, t := range tr {
				te := *ne
				te.inTrigger = true
				tt, _ := te.Eval(t)
				if !validPattern(tt) {
					valid = false
				}
				ts = append(ts, tt)
			}
			if !valid {
				continue
			}
			pats = append(pats, ":pattern ("+strings.Join(ts, " ")+")")
		}
		q := "exists"
		if x.Forall {
			q = "forall"
		}
		if len(pats) > 0 {
			body = "(! " + body + " " + strings.Join(pats, " ") + ")"
		}
		return "(" + q + " (" + strings.Join(decl, " ") + ") " + body + ")", stBool
	}
	e.fail("unhandled expression %T", x)
	return "", nil
}

func (e *Env) constTerm(v constant.Value, t types.Type) (string, *SType) {
	switch v.Kind() {
	case constant.Bool:
		return fmt.Sprint(constant.BoolVal(v)), stBool
	case constant.Int:
		s := v.ExactString()
		if strings.HasPrefix(s, "-") {
			s = "(- " + s[1:] + ")"
		}
		return s, &SType{Go: types.Typ[types.Int], Lit: true}
	case constant.String:
		ty := t
		if b, ok := t.(*types.Basic); ok && b.Info()&types.IsUntyped != 0 {
			ty = types.Typ[types.String]
		}
		return e.w.S.StrLit(constant.StringVal(v)), &SType{Go: ty}
	}
	e.fail("unsupported constant kind")
	return "", nil
}

func (e *Env) globalVar(o *types.Var) (string, *SType) {
	a := e.w.heapArr("glob!"+sanitize(o.Pkg().Name()+"."+o.Name()), e.w.S.SortOf(o.Type()))
	return e.arr(a, e.cur), &SType{Go: o.Type()}
}

func (e *Env) zeroLike(t *SType) string {
	if t.Set != nil {
		return "((as const " + t.Sort(e.w.S) + ") false)"
	}
	if t.IsNil {
		return "0"
	}
	return e.w.S.Zero(t.Go)
}

func (e *Env) field(t string, ty *SType, name string) (string, *SType) {
	if ty.Go == nil {
		e.fail("field %s of non-Go value", name)
	}
	obj, index, _ := types.LookupFieldOrMethod(ty.Go, true, e.pkgFor(ty.Go), name)
	fv, ok := obj.(*types.Var)
	if !ok || !fv.IsField() {
		e.fail("no field %s in %s", name, ty)
	}
	cur := t
	curT := ty.Go
	for _, idx := range index {
		if st, ok := isPtrToStruct(curT); ok {
			a := e.w.fieldArr(st, idx)
			cur = "(select " + e.arr(a, e.cur) + " " + cur + ")"
			curT = st.Underlying().(*types.Struct).Field(idx).Type()
		} else if stt, ok := types.Unalias(curT).Underlying().(*types.Struct); ok {
			cur = e.w.S.GetField(curT, idx, cur)
			curT = stt.Field(idx).Type()
		} else {
			e.fail("field access on %s", curT)
		}
	}
	return cur, &SType{Go: curT}
}

func (e *Env) pkgFor(t types.Type) *types.Package {
	// allow access to unexported fields of any package (specs are privileged)
	for {
		switch u := types.Unalias(t).(type) {
		case *types.Pointer:
			t = u.Elem()
			continue
		case *types.Named:
			if u.Obj() != nil {
				return u.Obj().Pkg()
			}
		}
		break
	}
	return e.ctx.Pkg
}

func isIntLike(t *SType) bool {
	if t.Go == nil {
		return false
	}
	b, ok := types.Unalias(t.Go).Underlying().(*types.Basic)
	return ok && b.Info()&types.IsInteger != 0
}

func (e *Env) evalBin(x *EBin) (string, *SType) {
	switch x.Op {
	case "&&", "||", "==>", "<==>":
		a, _ := e.Eval(x.X)
		b, _ := e.Eval(x.Y)
		op := map[string]string{"&&": "and", "||": "or", "==>": "=>", "<==>": "="}[x.Op]
		return "(" + op + " " + a + " " + b + ")", stBool
	case "in":
		a, _ := e.Eval(x.X)
		b, tb := e.Eval(x.Y)
		if tb.Set != nil {
			return "(select " + b + " " + a + ")", stBool
		}
		if m, ok := types.Unalias(tb.Go).Underlying().(*types.Map); ok {
			md, _ := e.w.mapArrs(m)
			// raw domain lookup: specifications state separately that a map is non-nil (Go: nothing is in a nil map)
			return "(select (select " + e.arr(md, e.cur) + " " + b + ") " + a + ")", stBool
		}
		e.fail("'in' on %s", tb)
	case "==", "!=":
		a, ta := e.Eval(x.X)
		b, tb := e.Eval(x.Y)
		if ta.IsNil && !tb.IsNil {
			a = e.zeroLike(tb)
		}
		if tb.IsNil && !ta.IsNil {
			b = e.zeroLike(ta)
		}
		r := "(= " + a + " " + b + ")"
		if x.Op == "!=" {
			r = "(not " + r + ")"
		}
		return r, stBool
	case "<", "<=", ">", ">=":
		a, _ := e.Eval(x.X)
		b, _ := e.Eval(x.Y)
		return "(" + x.Op + " " + a + " " + b + ")", stBool
	case "+", "-", "*", "/", "%":
		a, ta := e.Eval(x.X)
		b, _ := e.Eval(x.Y)
		if ta.Go != nil {
			if bb, ok := types.Unalias(ta.Go).Underlying().(*types.Basic); ok && bb.Info()&types.IsString != 0 && x.Op == "+" {
				e.vc.needStrFuns()
				return "(str!cat " + a + " " + b + ")", ta
			}
		}
		op := map[string]string{"+": "+", "-": "-", "*": "*", "/": "div", "%": "mod"}[x.Op]
		return "(" + op + " " + a + " " + b + ")", stInt
	}
	e.fail("unknown operator %s", x.Op)
	return "", nil
}

func (e *Env) evalCall(x *ECall) (string, *SType) {
	S := e.w.S
	switch x.Fn {
	case "old":
		if e.old == nil {
			e.fail("old() not available here")
		}
		ne := *e
		ne.cur = e.old
		return ne.Eval(x.Args[0])
	case "prev":
		// prev(e): e in the state just before the call an `after call N` assertion is attached to
		if e.prev == nil {
			e.fail("prev() is only available in `after call N` assertions")
		}
		ne := *e
		ne.cur = e.prev
		return ne.Eval(x.Args[0])
	case "pre":
		if e.pre == nil {
			e.fail("pre() is only available in loop invariants")
		}
		ne := *e
		ne.cur = e.pre
		return ne.Eval(x.Args[0])
	case "len":
		t, ty := e.Eval(x.Args[0])
		switch u := types.Unalias(ty.Go).Underlying().(type) {
		case *types.Map:
			md, _ := e.w.mapArrs(u)
			ks := S.SortOf(u.Key())
			e.vc.needCard(ks)
			return "(ite (= " + t + " 0) 0 (card!" + sanitize(ks) + " (select " + e.arr(md, e.cur) + " " + t + ")))", stInt
		case *types.Slice:
			return slLen(S.SortOf(ty.Go), t), stInt
		case *types.Basic:
			e.vc.needStrFuns()
			return "(str!len " + t + ")", stInt
		}
		e.fail("len of %s", ty)
	case "card":
		t, ty := e.Eval(x.Args[0])
		if ty.Set == nil {
			e.fail("card of non-set")
		}
		ks := ty.Set.Sort(S)
		e.vc.needCard(ks)
		return "(card!" + sanitize(ks) + " " + t + ")", stInt
	case "addr":
		// addr(v): the reference of a captured variable (closures)
		id, ok := x.Args[0].(*EIdent)
		if !ok {
			e.fail("addr() expects a captured variable name")
		}
		b, ok := e.vars[id.Name]
		if !ok || b.boxT == nil {
			e.fail("addr(%s): not a captured variable", id.Name)
		}
		return b.term, &SType{Go: types.NewPointer(b.boxT)}
	case "valof":
		// valof(p): the struct value a pointer refers to, assembled from the per-field heap arrays
		t, ty := e.Eval(x.Args[0])
		st, ok := isPtrToStruct(ty.Go)
		if !ok {
			e.fail("valof of %s", ty)
		}
		si := e.w.S.structInfo(st)
		v := e.w.S.Zero(st)
		idxs := sortedKeys(si.Fields)
		for _, i := range idxs {
			v = e.w.S.SetField(st, i, v, "(select "+e.arr(e.w.fieldArr(st, i), e.cur)+" "+t+")")
		}
		e.w.S.noteValof(si, len(idxs))
		return v, &SType{Go: st}
	case "deref":
		t, ty := e.Eval(x.Args[0])
		p, ok := types.Unalias(ty.Go).Underlying().(*types.Pointer)
		if !ok {
			e.fail("deref of non-pointer %s", ty)
		}
		if _, isStruct := p.Elem().Underlying().(*types.Struct); isStruct {
			e.fail("deref of pointer to struct: use field access")
		}
		return "(select " + e.arr(e.w.boxArr(p.Elem()), e.cur) + " " + t + ")", &SType{Go: p.Elem()}
	case "isnil":
		t, ty := e.Eval(x.Args[0])
		if _, ok := types.Unalias(ty.Go).Underlying().(*types.Slice); ok {
			return slNil(S.SortOf(ty.Go), t), stBool
		}
		return "(= " + t + " " + e.zeroLike(ty) + ")", stBool
	case "allocated":
		if e.record != nil {
			e.record.next = true
		}
		t, _ := e.Eval(x.Args[0])
		return "(and (< 0 " + t + ") (< " + t + " " + e.cur.next + "))", stBool
	case "fresh":
		t, _ := e.Eval(x.Args[0])
		if e.old == nil {
			e.fail("fresh() needs an old state")
		}
		return "(and (<= " + e.old.next + " " + t + ") (< " + t + " " + e.cur.next + "))", stBool
	case "dom":
		t, ty := e.Eval(x.Args[0])
		m, ok := types.Unalias(ty.Go).Underlying().(*types.Map)
		if !ok {
			e.fail("dom of non-map %s", ty)
		}
		md, _ := e.w.mapArrs(m)
		return "(select " + e.arr(md, e.cur) + " " + t + ")", &SType{Set: &SType{Go: m.Key()}}
	case "seencount":
		if e.seen == "" {
			e.fail("seencount() outside a map-range loop invariant")
		}
		ks := S.SortOf(e.seenKey.Go)
		e.vc.needCard(ks)
		return "(card!" + sanitize(ks) + " " + e.seen + ")", stInt
	case "seen":
		if e.seen == "" {
			e.fail("seen() outside a map-range loop invariant")
		}
		t, _ := e.Eval(x.Args[0])
		return "(select " + e.seen + " " + t + ")", stBool
	case "dyntype":
		// dyntype(x, T): interface value x has dynamic type T
		t, _ := e.Eval(x.Args[0])
		ty := e.typeArg(x.Args[1])
		return fmt.Sprintf("(= (itag %s) %d)", t, S.Tag(ty.Go)), stBool
	case "unwrap":
		// unwrap(x, T): payload of interface x as pointer type T
		t, _ := e.Eval(x.Args[0])
		ty := e.typeArg(x.Args[1])
		return "(iref " + t + ")", ty
	case "emptyset":
		ty := e.typeArg(x.Args[0])
		st := &SType{Set: ty}
		return "((as const " + st.Sort(S) + ") false)", st
	}
	if g, ok := e.w.Specs.Ghosts[x.Fn]; ok {
		t, _ := e.Eval(x.Args[0])
		gctx := e.w.ctxFor(g.PkgPath, g.File)
		a := e.w.ghostArr(g, gctx)
		return "(select " + e.arr(a, e.cur) + " " + t + ")", e.w.resolveType(g.Ret, gctx)
	}
	if fd, ok := e.w.Specs.Funs[x.Fn]; ok {
		if len(x.Args) != len(fd.Params) {
			e.fail("%s: expected %d args", x.Fn, len(fd.Params))
		}
		fctx := e.w.ctxFor(fd.pkgOf(), fd.File)
		rt := e.w.resolveType(fd.Ret, fctx)
		if fd.Body == nil {
			var args, sorts []string
			for i, a := range x.Args {
				t, ta := e.Eval(a)
				pt := e.w.resolveType(fd.Params[i].Type, fctx)
				if ta.IsNil {
					t = e.zeroLike(pt)
				}
				args = append(args, t)
				sorts = append(sorts, pt.Sort(S))
			}
			e.vc.declareFun(fd.Name, sorts, rt.Sort(S))
			if len(args) == 0 {
				return fd.Name, rt
			}
			return "(" + fd.Name + " " + strings.Join(args, " ") + ")", rt
		}
		if e.depth > 40 {
			e.fail("spec function recursion too deep at %s", x.Fn)
		}
		if e.record == nil && !e.vc.revealAll && (e.vc.hide[fd.Name] ||
			(fd.Opaque && !(e.vc.reveal[fd.Name] || (e.vc.homePkg != "" && e.vc.homePkg == fd.PkgPath)))) {
			return e.opaqueCall(fd, fctx, rt, x)
		}
		vars := map[string]binding{}
		var lets []string
		for i, a := range x.Args {
			t, ta := e.Eval(a)
			pt := e.w.resolveType(fd.Params[i].Type, fctx)
			if ta.IsNil {
				t = e.zeroLike(pt)
			}
			if len(t) > 24 {
				if e.record == nil && strings.Contains(t, "(ite ") && e.vc.groundTerm(t) {
					// a ground argument with a conditional: name it by a constant (z3 rejects patterns that contain
					// 'ite', also after let-expansion), defined by an equation added to every query that mentions it
					t = e.vc.defConst("d!"+fd.Params[i].Name, pt.Sort(S), t)
				} else {
					n := fmt.Sprintf("a!%s!%d", fd.Params[i].Name, e.vc.fresh())
					lets = append(lets, "("+n+" "+t+")")
					e.vc.letVars[n] = true
					t = n
				}
			}
			vars[fd.Params[i].Name] = binding{term: t, typ: pt}
		}
		ne := &Env{w: e.w, vc: e.vc, cur: e.cur, old: e.old, pre: e.pre, vars: vars, ctx: fctx, seen: e.seen, seenKey: e.seenKey, depth: e.depth + 1, record: e.record, inTrigger: e.inTrigger, prev: e.prev}
		body, _ := ne.Eval(fd.Body)
		if len(lets) > 0 {
			body = "(let (" + strings.Join(lets, " ") + ") " + body + ")"
		}
		return body, rt
	}
	e.fail("unknown spec function %s", x.Fn)
	return "", nil
}

func (fd *FunDef) pkgOf() string { return fd.PkgPath }

func (e *Env) typeArg(x Expr) *SType {
	te, ok := x.(*EType)
	if !ok {
		e.fail("expected a type, got %s", x)
	}
	return e.w.resolveType(te.T, e.ctx)
}

// validPattern: a trigger term must be an application of an uninterpreted or theory function, not a connective.
func validPattern(t string) bool {
	if !strings.HasPrefix(t, "(") {
		return false
	}
	head := t[1:]
	if i := strings.IndexAny(head, " )"); i >= 0 {
		head = head[:i]
	}
	switch head {
	case "and", "or", "not", "=", "=>", "ite", "let", "forall", "exists", "<", "<=", ">", ">=", "+", "-", "*", "distinct", "!":
		return false
	}
	// no connective, conditional or binder anywhere inside (z3 rejects such patterns)
	for _, bad := range []string{"(ite ", "(let ", "(and ", "(or ", "(not ", "(=> ", "(= ", "(forall ", "(exists "} {
		if strings.Contains(t, bad) {
			return false
		}
	}
	return true
}

// opaqueInfo: read set of an opaque predicate, computed by a dry-run evaluation of its body.
func (w *World) opaqueInfo(fd *FunDef, fctx *ResCtx) *readSet {
	if w.opaqueRS == nil {
		w.opaqueRS = map[string]*readSet{}
	}
	if rs, ok := w.opaqueRS[fd.Name]; ok {
		return rs
	}
	rs := &readSet{arrs: map[string]*ArrInfo{}}
	w.opaqueRS[fd.Name] = rs
	vars := map[string]binding{}
	for _, p := range fd.Params {
		vars[p.Name] = binding{term: "x!" + p.Name, typ: w.resolveType(p.Type, fctx)}
	}
	tmp := NewFuncVC(w, "dry")
	env := &Env{w: w, vc: tmp, cur: &HeapState{vers: map[string]string{}, next: "next!dry"}, vars: vars, ctx: fctx, record: rs}
	env.Eval(fd.Body)
	return rs
}

func (e *Env) opaqueCall(fd *FunDef, fctx *ResCtx, rt *SType, x *ECall) (string, *SType) {
	S := e.w.S
	rs := e.w.opaqueInfo(fd, fctx)
	var names []string
	for n := range rs.arrs {
		names = append(names, n)
	}
	sortStrings(names)
	var args, sorts []string
	for _, n := range names {
		a := rs.arrs[n]
		args = append(args, e.arr(a, e.cur))
		sorts = append(sorts, a.Sort)
	}
	if rs.next {
		args = append(args, e.cur.next)
		sorts = append(sorts, "Int")
	}
	for i, a := range x.Args {
		t, ta := e.Eval(a)
		pt := e.w.resolveType(fd.Params[i].Type, fctx)
		if ta.IsNil {
			t = e.zeroLike(pt)
		}
		args = append(args, t)
		sorts = append(sorts, pt.Sort(S))
	}
	sym := "op!" + fd.Name
	e.vc.declareFun(sym, sorts, rt.Sort(S))
	if rs.next && !e.vc.opaqueMono[sym] {
		// monotone in the allocation counter (proved separately: obligation lemma.mono.<name>)
		e.vc.opaqueMono[sym] = true
		var bv, call1, call2 []string
		for i, so := range sorts {
			if i == len(names) {
				continue
			}
			v := fmt.Sprintf("m!%d", i)
			bv = append(bv, "("+v+" "+so+")")
		}
		for i := range sorts {
			if i == len(names) {
				call1 = append(call1, "n!1")
				call2 = append(call2, "n!2")
			} else {
				call1 = append(call1, fmt.Sprintf("m!%d", i))
				call2 = append(call2, fmt.Sprintf("m!%d", i))
			}
		}
		bv = append(bv, "(n!1 Int)", "(n!2 Int)")
		c1 := "(" + sym + " " + strings.Join(call1, " ") + ")"
		c2 := "(" + sym + " " + strings.Join(call2, " ") + ")"
		e.vc.axioms = append(e.vc.axioms, "(forall ("+strings.Join(bv, " ")+") (! (=> (and "+c1+" (<= n!1 n!2)) "+c2+") :pattern ("+c1+" "+c2+")))")
	}
	return "(" + sym + " " + strings.Join(args, " ") + ")", rt
}
