package main

import (
	"go/types"
	"fmt"
	"os"
	"path/filepath"
	"strings"

	"golang.org/x/tools/go/ssa"
)

// ---------- spec AST ----------

type Expr interface{ String() string }

type (
	EIdent struct{ Name string }
	EInt   struct{ V string }
	EStr   struct{ V string }
	EBool  struct{ V bool }
	ENil   struct{}
	EUn    struct {
		Op string
		X  Expr
	}
	EBin struct {
		Op   string
		X, Y Expr
	}
	EField struct {
		X    Expr
		Name string
	}
	EIndex struct{ X, I Expr }
	ECall  struct {
		Fn   string
		Args []Expr
	}
	EQuant struct {
		Forall   bool
		Vars     []Binder
		Triggers [][]Expr
		Body     Expr
	}
	EIte struct{ C, T, E Expr }
	ELet struct {
		Name string
		Val  Expr
		Body Expr
	}
	EType struct{ T *TypeExpr }
)

func (e *EType) String() string { return e.T.String() }

type Binder struct {
	Name string
	Type *TypeExpr
}

// TypeExpr is a parsed type: ptr, named, map, slice, set, basic
type TypeExpr struct {
	Go   types.Type // Kind "resolved": a Go type taken from a signature (directive `functional`)
	Kind string // "name", "ptr", "map", "slice", "set", "seq", "resolved"
	Pkg  string
	Name string
	Key  *TypeExpr
	Elem *TypeExpr
}

func (t *TypeExpr) String() string {
	switch t.Kind {
	case "ptr":
		return "*" + t.Elem.String()
	case "map":
		return "map[" + t.Key.String() + "]" + t.Elem.String()
	case "slice":
		return "[]" + t.Elem.String()
	case "set":
		return "set[" + t.Elem.String() + "]"
	}
	if t.Pkg != "" {
		return t.Pkg + "." + t.Name
	}
	return t.Name
}

func (e *EIdent) String() string { return e.Name }
func (e *EInt) String() string   { return e.V }
func (e *EStr) String() string   { return fmt.Sprintf("%q", e.V) }
func (e *EBool) String() string  { return fmt.Sprint(e.V) }
func (e *ENil) String() string   { return "nil" }
func (e *EUn) String() string    { return e.Op + e.X.String() }
func (e *EBin) String() string   { return "(" + e.X.String() + " " + e.Op + " " + e.Y.String() + ")" }
func (e *EField) String() string { return e.X.String() + "." + e.Name }
func (e *EIndex) String() string { return e.X.String() + "[" + e.I.String() + "]" }
func (e *ECall) String() string {
	var a []string
	for _, x := range e.Args {
		a = append(a, x.String())
	}
	return e.Fn + "(" + strings.Join(a, ", ") + ")"
}
func (e *EQuant) String() string {
	q := "exists"
	if e.Forall {
		q = "forall"
	}
	var vs []string
	for _, v := range e.Vars {
		vs = append(vs, v.Name+" "+v.Type.String())
	}
	return "(" + q + " " + strings.Join(vs, ", ") + " :: " + e.Body.String() + ")"
}
func (e *EIte) String() string {
	return "(if " + e.C.String() + " then " + e.T.String() + " else " + e.E.String() + ")"
}
func (e *ELet) String() string {
	return "(let " + e.Name + " = " + e.Val.String() + " in " + e.Body.String() + ")"
}

// ---------- declarations ----------

type Clause struct {
	Kind  string // requires, ensures, invariant
	Tags  []string
	Label string
	E     Expr
	Src   string
	Free  bool // "free" clause: assumed, never checked (listed as assumption)
}

type ModClause struct {
	// Target: either "field" (Type.Field / ghost name) with predicate over bound var, or expression form
	Kind string // "array", "loc", "mapall"
	// array form: Arr names the heap array via TypeName + Field, or ghost field name, or map type
	TypeX *TypeExpr // for struct field: struct type; for map contents: the map type
	Field string    // field name, or ghost field name when TypeX nil
	Var   string    // bound variable
	Pred  Expr      // predicate over Var (pre-state)
	// loc form: X.f  / mapall: m[*]
	X Expr
}

type LoopSpec struct {
	N    int
	Invs []*Clause
	Cut  bool // the loop head is a cut point: obligations in and after the loop see the entry facts and the invariants only
}

// retBase offsets the keys of FuncSpec.Before that belong to "before return N:" blocks
const retBase = 100000

type FuncSpec struct {
	NoSafety   bool   // directive `nosafety`
	Functional string // name of the specification function that stands for the result (directive `functional`)
	Hints    map[string]map[string]bool // obligation suffix -> labels of the quantified hypotheses it may use
	Key      string // function identifier as written
	Extern   bool
	Params   []string // for extern: parameter names (incl. receiver first)
	Results  []string
	Requires []*Clause
	Ensures  []*Clause
	Modifies []*ModClause
	Loops    map[int]*LoopSpec
	File     string
	Line     int
	PkgPath  string // package context for name resolution
	Pure     bool   // extern: declared pure (no heap effect)
	Inline   bool
	Opaque   bool // body not verified (trusted) for repo functions
	Mutates  []string
	Reveal   []string
	Hide     []string // spec functions kept uninterpreted while verifying this function (even if defined in its package)
	Asserts  map[int][]*Clause // ghost assertions after the N-th call (source order, builtins excluded)
	Before   map[int][]*Clause // ghost assertions just before the N-th call (key retBase+N: just before the N-th return)
	Cuts     map[int]bool      // "after call N cut:" everything learnt since entry is forgotten after these assertions
	Use      map[int][]string  // "at call N use: l1, l2": only these callee postconditions are assumed at that call
	// sortspec (comparator closures passed to sort.Slice)
	SortSlice    Expr
	SortFlag     Expr
	SortConflict string
	SortLess     string
	SortTags     []string
	ModAll       bool // "modifies *": every heap array not named by another modifies clause may change arbitrarily
	Used     bool
	fn       *ssa.Function
}

type FunDef struct {
	Opaque  bool // heap-dependent predicate kept as an uninterpreted symbol outside its home package
	Name    string
	Params  []Binder
	Ret     *TypeExpr // nil for pred (bool)
	Body    Expr      // nil for ufun
	PkgPath string
	File    string
	Line    int
}

type GhostField struct {
	Name    string
	Param   Binder
	Ret     *TypeExpr
	PkgPath string
	File    string
}

type Axiom struct {
	Name    string
	E       Expr
	PkgPath string
	File    string
}

type Lemma struct {
	Reveal   []string
	Name     string
	Tags     []string
	Params   []Binder
	Requires []*Clause
	Ensures  []*Clause
	PkgPath  string
	File     string
}

type TypeInv struct {
	Type    *TypeExpr
	E       Expr
	PkgPath string
}

type SpecDB struct {
	Imports map[string]map[string]string // file -> short -> path
	Funcs   map[string]*FuncSpec         // resolved full name -> spec
	RawFn   []*FuncSpec
	Funs    map[string]*FunDef
	Ghosts  map[string]*GhostField
	Axioms  []*Axiom
	Lemmas  []*Lemma
	Files   []string
}

// ---------- lexer ----------

type tok struct {
	k string // id, int, str, op, eof
	v string
}

type lexer struct {
	toks []tok
	p    int
	src  string
}

func lex(src string) ([]tok, error) {
	var out []tok
	i := 0
	for i < len(src) {
		c := src[i]
		switch {
		case c == ' ' || c == '\t' || c == '\n' || c == '\r':
			i++
		case c >= '0' && c <= '9':
			j := i
			for j < len(src) && src[j] >= '0' && src[j] <= '9' {
				j++
			}
			out = append(out, tok{"int", src[i:j]})
			i = j
		case c == '"':
			j := i + 1
			var sb strings.Builder
			for j < len(src) && src[j] != '"' {
				if src[j] == '\\' && j+1 < len(src) {
					j++
				}
				sb.WriteByte(src[j])
				j++
			}
			if j >= len(src) {
				return nil, fmt.Errorf("unterminated string")
			}
			out = append(out, tok{"str", sb.String()})
			i = j + 1
		case c == '_' || c >= 'a' && c <= 'z' || c >= 'A' && c <= 'Z':
			j := i
			for j < len(src) && (src[j] == '_' || src[j] >= 'a' && src[j] <= 'z' || src[j] >= 'A' && src[j] <= 'Z' || src[j] >= '0' && src[j] <= '9') {
				j++
			}
			out = append(out, tok{"id", src[i:j]})
			i = j
		default:
			ops := []string{"<==>", "==>", "::", "==", "!=", "<=", ">=", "&&", "||", "[*]"}
			matched := false
			for _, o := range ops {
				if strings.HasPrefix(src[i:], o) {
					out = append(out, tok{"op", o})
					i += len(o)
					matched = true
					break
				}
			}
			if !matched {
				out = append(out, tok{"op", string(c)})
				i++
			}
		}
	}
	out = append(out, tok{"eof", ""})
	return out, nil
}

type parser struct {
	toks []tok
	p    int
}

func (p *parser) peek() tok { return p.toks[p.p] }
func (p *parser) next() tok { t := p.toks[p.p]; p.p++; return t }
func (p *parser) isOp(v string) bool {
	t := p.peek()
	return t.k == "op" && t.v == v
}
func (p *parser) isId(v string) bool {
	t := p.peek()
	return t.k == "id" && t.v == v
}
func (p *parser) expectOp(v string) {
	t := p.next()
	if t.k != "op" || t.v != v {
		panic(fmt.Sprintf("expected %q, got %q", v, t.v))
	}
}
func (p *parser) ident() string {
	t := p.next()
	if t.k != "id" {
		panic(fmt.Sprintf("expected identifier, got %q", t.v))
	}
	return t.v
}

func (p *parser) parseType() *TypeExpr {
	if p.isOp("*") {
		p.next()
		return &TypeExpr{Kind: "ptr", Elem: p.parseType()}
	}
	if p.isOp("[") {
		p.next()
		p.expectOp("]")
		return &TypeExpr{Kind: "slice", Elem: p.parseType()}
	}
	name := p.ident()
	if name == "map" && p.isOp("[") {
		p.next()
		k := p.parseType()
		p.expectOp("]")
		return &TypeExpr{Kind: "map", Key: k, Elem: p.parseType()}
	}
	if name == "struct" && p.isOp("{") {
		p.next()
		p.expectOp("}")
		return &TypeExpr{Kind: "emptystruct"}
	}
	if name == "set" && p.isOp("[") {
		p.next()
		k := p.parseType()
		p.expectOp("]")
		return &TypeExpr{Kind: "set", Elem: k}
	}
	if p.isOp(".") {
		p.next()
		return &TypeExpr{Kind: "name", Pkg: name, Name: p.ident()}
	}
	return &TypeExpr{Kind: "name", Name: name}
}

func (p *parser) parseExpr() Expr {
	if p.isId("forall") || p.isId("exists") {
		q := &EQuant{Forall: p.next().v == "forall"}
		for {
			name := p.ident()
			t := p.parseType()
			q.Vars = append(q.Vars, Binder{name, t})
			if p.isOp(",") {
				p.next()
				continue
			}
			break
		}
		p.expectOp("::")
		for p.isOp("{") {
			p.next()
			var tr []Expr
			for {
				tr = append(tr, p.parseExpr())
				if p.isOp(",") {
					p.next()
					continue
				}
				break
			}
			p.expectOp("}")
			q.Triggers = append(q.Triggers, tr)
		}
		q.Body = p.parseExpr()
		return q
	}
	if p.isId("let") {
		p.next()
		name := p.ident()
		p.expectOp("=")
		v := p.parseImplies()
		if !p.isId("in") {
			panic("expected 'in' in let")
		}
		p.next()
		return &ELet{name, v, p.parseExpr()}
	}
	return p.parseImplies()
}

func (p *parser) parseImplies() Expr {
	l := p.parseOr()
	if p.isOp("==>") {
		p.next()
		r := p.parseExprNoLet()
		return &EBin{"==>", l, r}
	}
	if p.isOp("<==>") {
		p.next()
		r := p.parseOr()
		return &EBin{"<==>", l, r}
	}
	return l
}

func (p *parser) parseExprNoLet() Expr {
	if p.isId("forall") || p.isId("exists") || p.isId("let") {
		return p.parseExpr()
	}
	return p.parseImplies()
}

func (p *parser) parseOr() Expr {
	l := p.parseAnd()
	for p.isOp("||") {
		p.next()
		l = &EBin{"||", l, p.parseAnd()}
	}
	return l
}

func (p *parser) parseAnd() Expr {
	l := p.parseCmp()
	for p.isOp("&&") {
		p.next()
		l = &EBin{"&&", l, p.parseCmp()}
	}
	return l
}

func (p *parser) parseCmp() Expr {
	if p.isId("forall") || p.isId("exists") {
		return p.parseExpr()
	}
	l := p.parseAdd()
	t := p.peek()
	if t.k == "op" {
		switch t.v {
		case "==", "!=", "<", "<=", ">", ">=":
			p.next()
			return &EBin{t.v, l, p.parseAdd()}
		}
	}
	if t.k == "id" && t.v == "in" {
		p.next()
		return &EBin{"in", l, p.parseAdd()}
	}
	return l
}

func (p *parser) parseAdd() Expr {
	l := p.parseMul()
	for p.isOp("+") || p.isOp("-") {
		op := p.next().v
		l = &EBin{op, l, p.parseMul()}
	}
	return l
}

func (p *parser) parseMul() Expr {
	l := p.parseUnary()
	for p.isOp("*") || p.isOp("/") || p.isOp("%") {
		op := p.next().v
		l = &EBin{op, l, p.parseUnary()}
	}
	return l
}

func (p *parser) parseUnary() Expr {
	if p.isOp("!") {
		p.next()
		return &EUn{"!", p.parseUnary()}
	}
	if p.isOp("-") {
		p.next()
		return &EUn{"-", p.parseUnary()}
	}
	return p.parsePostfix()
}

func (p *parser) parsePostfix() Expr {
	e := p.parsePrimary()
	for {
		switch {
		case p.isOp("."):
			p.next()
			e = &EField{e, p.ident()}
		case p.isOp("["):
			p.next()
			i := p.parseExpr()
			p.expectOp("]")
			e = &EIndex{e, i}
		default:
			return e
		}
	}
}

func (p *parser) parsePrimary() Expr {
	t := p.next()
	switch t.k {
	case "int":
		return &EInt{t.v}
	case "str":
		return &EStr{t.v}
	case "id":
		switch t.v {
		case "true":
			return &EBool{true}
		case "false":
			return &EBool{false}
		case "nil":
			return &ENil{}
		case "if":
			c := p.parseExpr()
			if !p.isId("then") {
				panic("expected then")
			}
			p.next()
			a := p.parseExpr()
			if !p.isId("else") {
				panic("expected else")
			}
			p.next()
			b := p.parseExpr()
			return &EIte{c, a, b}
		}
		if p.isOp("(") {
			p.next()
			var args []Expr
			if !p.isOp(")") {
				for {
					if (t.v == "emptyset" && len(args) == 0) || ((t.v == "dyntype" || t.v == "unwrap") && len(args) == 1) {
						args = append(args, &EType{p.parseType()})
					} else {
						args = append(args, p.parseExpr())
					}
					if p.isOp(",") {
						p.next()
						continue
					}
					break
				}
			}
			p.expectOp(")")
			return &ECall{t.v, args}
		}
		return &EIdent{t.v}
	case "op":
		if t.v == "(" {
			e := p.parseExpr()
			p.expectOp(")")
			return e
		}
	}
	panic(fmt.Sprintf("unexpected token %q", t.v))
}

func parseExprString(src string) (e Expr, err error) {
	defer func() {
		if r := recover(); r != nil {
			err = fmt.Errorf("%v in %q", r, src)
		}
	}()
	toks, err := lex(src)
	if err != nil {
		return nil, err
	}
	p := &parser{toks: toks}
	e = p.parseExpr()
	if p.peek().k != "eof" {
		return nil, fmt.Errorf("trailing tokens at %q in %q", p.peek().v, src)
	}
	return e, nil
}

// ---------- file-level parsing ----------

var declKeywords = map[string]bool{"hide": true, "before": true, "at": true, "sortspec": true, "after": true, "assert": true, "opaque": true, "reveal": true, "import": true, "ghost": true, "fun": true, "pred": true, "ufun": true,
	"axiom": true, "func": true, "extern": true, "lemma": true, "requires": true, "ensures": true,
	"modifies": true, "loop": true, "hint": true, "functional": true, "nosafety": true, "invariant": true, "pure": true, "free": true, "trusted": true, "mutates": true,
	"package": true}

// logical lines: a line starting with a keyword begins a new item; other lines continue the previous.
type logLine struct {
	text string
	line int
}

func splitLogical(lines []string, startLine []int) []logLine {
	var out []logLine
	for i, l := range lines {
		t := strings.TrimSpace(l)
		if t == "" || strings.HasPrefix(t, "--") || strings.HasPrefix(t, "#") {
			continue
		}
		if j := strings.Index(t, " -- "); j >= 0 {
			t = strings.TrimSpace(t[:j])
		}
		first := t
		if j := strings.IndexAny(t, " \t(:"); j >= 0 {
			first = t[:j]
		}
		if declKeywords[first] {
			out = append(out, logLine{t, startLine[i]})
		} else if len(out) > 0 {
			out[len(out)-1].text += " " + t
		} else {
			out = append(out, logLine{t, startLine[i]})
		}
	}
	return out
}

func NewSpecDB() *SpecDB {
	return &SpecDB{Imports: map[string]map[string]string{}, Funcs: map[string]*FuncSpec{},
		Funs: map[string]*FunDef{}, Ghosts: map[string]*GhostField{}}
}

// LoadSpecFile parses a .gspec file, or a Go file with //@ lines (pkgPath = its package).
func (db *SpecDB) LoadSpecFile(path string, pkgPath string) error {
	data, err := os.ReadFile(path)
	if err != nil {
		return err
	}
	var lines []string
	var nums []int
	isGo := strings.HasSuffix(path, ".go")
	for i, l := range strings.Split(string(data), "\n") {
		if isGo {
			t := strings.TrimSpace(l)
			if strings.HasPrefix(t, "//@") {
				lines = append(lines, strings.TrimPrefix(t, "//@"))
				nums = append(nums, i+1)
			} else if strings.HasPrefix(t, "// @") {
				lines = append(lines, strings.TrimPrefix(t, "// @"))
				nums = append(nums, i+1)
			}
		} else {
			lines = append(lines, l)
			nums = append(nums, i+1)
		}
	}
	db.Files = append(db.Files, path)
	imports := map[string]string{}
	db.Imports[path] = imports
	var cur *FuncSpec
	curCall := 0
	var curLoop *LoopSpec
	var curLemma *Lemma
	fail := func(ll logLine, err interface{}) error {
		return fmt.Errorf("%s:%d: %v", filepath.Base(path), ll.line, err)
	}
	for _, ll := range splitLogical(lines, nums) {
		t := ll.text
		kw := t
		rest := ""
		if j := strings.IndexAny(t, " \t"); j >= 0 {
			kw = t[:j]
			rest = strings.TrimSpace(t[j+1:])
		}
		opaqueDecl := false
		if kw == "opaque" {
			opaqueDecl = true
			t = rest
			kw = t
			rest = ""
			if j := strings.IndexAny(t, " \t"); j >= 0 {
				kw = t[:j]
				rest = strings.TrimSpace(t[j+1:])
			}
		}
		free := false
		if kw == "free" {
			free = true
			t = rest
			kw = t
			rest = ""
			if j := strings.IndexAny(t, " \t"); j >= 0 {
				kw = t[:j]
				rest = strings.TrimSpace(t[j+1:])
			}
		}
		switch kw {
		case "package":
			pkgPath = strings.Trim(rest, "\"")
		case "import":
			f := strings.Fields(rest)
			if len(f) != 2 {
				return fail(ll, "import <short> \"path\"")
			}
			imports[f[0]] = strings.Trim(f[1], "\"")
		case "ghost":
			// ghost field name(x T) R
			r := strings.TrimSpace(strings.TrimPrefix(rest, "field"))
			toks, err := lex(r)
			if err != nil {
				return fail(ll, err)
			}
			if err := func() (err error) {
				defer func() {
					if rr := recover(); rr != nil {
						err = fmt.Errorf("%v", rr)
					}
				}()
				p := &parser{toks: toks}
				name := p.ident()
				p.expectOp("(")
				pn := p.ident()
				pt := p.parseType()
				p.expectOp(")")
				rt := p.parseType()
				db.Ghosts[name] = &GhostField{Name: name, Param: Binder{pn, pt}, Ret: rt, PkgPath: pkgPath, File: path}
				return nil
			}(); err != nil {
				return fail(ll, err)
			}
			cur, curLoop, curLemma = nil, nil, nil
		case "fun", "pred", "ufun":
			if err := func() (err error) {
				defer func() {
					if rr := recover(); rr != nil {
						err = fmt.Errorf("%v", rr)
					}
				}()
				toks, err := lex(rest)
				if err != nil {
					return err
				}
				p := &parser{toks: toks}
				fd := &FunDef{Name: p.ident(), PkgPath: pkgPath, File: path, Line: ll.line, Opaque: opaqueDecl}
				p.expectOp("(")
				if !p.isOp(")") {
					for {
						n := p.ident()
						ty := p.parseType()
						fd.Params = append(fd.Params, Binder{n, ty})
						if p.isOp(",") {
							p.next()
							continue
						}
						break
					}
				}
				p.expectOp(")")
				if kw != "pred" {
					fd.Ret = p.parseType()
				} else {
					fd.Ret = &TypeExpr{Kind: "name", Name: "bool"}
				}
				if kw != "ufun" {
					p.expectOp("=")
					fd.Body = p.parseExpr()
				}
				if p.peek().k != "eof" {
					return fmt.Errorf("trailing tokens at %q", p.peek().v)
				}
				if _, dup := db.Funs[fd.Name]; dup {
					return fmt.Errorf("duplicate spec function %s", fd.Name)
				}
				db.Funs[fd.Name] = fd
				return nil
			}(); err != nil {
				return fail(ll, err)
			}
			cur, curLoop, curLemma = nil, nil, nil
		case "axiom":
			name, body := splitLabel(rest)
			e, err := parseExprString(body)
			if err != nil {
				return fail(ll, err)
			}
			db.Axioms = append(db.Axioms, &Axiom{Name: name, E: e, PkgPath: pkgPath, File: path})
			cur, curLoop, curLemma = nil, nil, nil
		case "extern", "func":
			fs := &FuncSpec{Loops: map[int]*LoopSpec{}, Asserts: map[int][]*Clause{}, Before: map[int][]*Clause{}, Cuts: map[int]bool{}, Use: map[int][]string{}, File: path, Line: ll.line, PkgPath: pkgPath}
			curCall = 0
			r := rest
			if kw == "extern" {
				fs.Extern = true
				r = strings.TrimSpace(strings.TrimPrefix(r, "func"))
			}
			// key up to first '(' that starts the parameter list (after the name)
			key, params, results := parseFuncHeader(r)
			fs.Key = key
			fs.Params = params
			fs.Results = results
			db.RawFn = append(db.RawFn, fs)
			cur, curLoop, curLemma = fs, nil, nil
		case "lemma":
			if err := func() (err error) {
				defer func() {
					if rr := recover(); rr != nil {
						err = fmt.Errorf("%v", rr)
					}
				}()
				tags, r := splitTags(rest)
				toks, err := lex(r)
				if err != nil {
					return err
				}
				p := &parser{toks: toks}
				lm := &Lemma{Name: p.ident(), Tags: tags, PkgPath: pkgPath, File: path}
				p.expectOp("(")
				if !p.isOp(")") {
					for {
						n := p.ident()
						ty := p.parseType()
						lm.Params = append(lm.Params, Binder{n, ty})
						if p.isOp(",") {
							p.next()
							continue
						}
						break
					}
				}
				p.expectOp(")")
				db.Lemmas = append(db.Lemmas, lm)
				curLemma = lm
				return nil
			}(); err != nil {
				return fail(ll, err)
			}
			cur, curLoop = nil, nil
		case "requires", "ensures", "invariant":
			tags, r := splitTags(rest)
			label, body := splitLabel(r)
			e, err := parseExprString(body)
			if err != nil {
				return fail(ll, err)
			}
			cl := &Clause{Kind: kw, Tags: tags, Label: label, E: e, Src: body, Free: free}
			if curLemma != nil {
				if kw == "requires" {
					curLemma.Requires = append(curLemma.Requires, cl)
				} else {
					curLemma.Ensures = append(curLemma.Ensures, cl)
				}
				continue
			}
			if cur == nil {
				return fail(ll, "clause outside func")
			}
			switch kw {
			case "requires":
				cur.Requires = append(cur.Requires, cl)
			case "ensures":
				cur.Ensures = append(cur.Ensures, cl)
			case "invariant":
				if curLoop == nil {
					return fail(ll, "invariant outside loop")
				}
				curLoop.Invs = append(curLoop.Invs, cl)
			}
		case "modifies":
			if cur == nil {
				return fail(ll, "modifies outside func")
			}
			if strings.TrimSpace(rest) == "*" {
				cur.ModAll = true
				continue
			}
			mc, err := parseModifies(rest)
			if err != nil {
				return fail(ll, err)
			}
			cur.Modifies = append(cur.Modifies, mc...)
		case "mutates":
			if cur == nil {
				return fail(ll, "mutates outside func")
			}
			for _, f := range strings.Split(rest, ",") {
				cur.Mutates = append(cur.Mutates, strings.TrimSpace(f))
			}
		case "hide":
			if cur == nil {
				return fail(ll, "hide outside func")
			}
			for _, f := range strings.Split(rest, ",") {
				if f = strings.TrimSpace(f); f != "" {
					cur.Hide = append(cur.Hide, f)
				}
			}
		case "reveal":
			for _, f := range strings.Split(rest, ",") {
				f = strings.TrimSpace(f)
				if f == "" {
					continue
				}
				if cur != nil {
					cur.Reveal = append(cur.Reveal, f)
				} else if curLemma != nil {
					curLemma.Reveal = append(curLemma.Reveal, f)
				} else {
					return fail(ll, "reveal outside func/lemma")
				}
			}
		case "functional":
			// functional <name>: the (single) result of this function is a function of its arguments - justified by a
			// syntactic check of the body (value-typed parameters, no heap access, no calls); <name> becomes a
			// specification function standing for the result, and callers learn  res == <name>(args)
			if cur == nil {
				return fail(ll, "functional outside func")
			}
			cur.Functional = strings.TrimSpace(rest)
			if cur.Functional == "" {
				return fail(ll, "functional <name>")
			}
		case "nosafety":
			// thin contract: the panic-freedom obligations of this function's body are not generated (and not claimed)
			if cur == nil {
				return fail(ll, "nosafety outside func")
			}
			cur.NoSafety = true
		case "pure":
			if cur == nil {
				return fail(ll, "pure outside func")
			}
			cur.Pure = true
		case "trusted":
			if cur == nil {
				return fail(ll, "trusted outside func")
			}
			cur.Opaque = true
		case "at":
			// at call N[,M,...] use: label, label
			if cur == nil {
				return fail(ll, "at outside func")
			}
			r := strings.TrimSpace(strings.TrimPrefix(rest, "call"))
			k := strings.Index(r, "use:")
			if k < 0 {
				return fail(ll, "at call N use: labels")
			}
			var labels []string
			for _, f := range strings.Split(r[k+4:], ",") {
				if f = strings.TrimSpace(f); f != "" {
					labels = append(labels, f)
				}
			}
			for _, f := range strings.Split(r[:k], ",") {
				var n int
				fmt.Sscanf(strings.TrimSpace(f), "%d", &n)
				if n <= 0 {
					return fail(ll, "at call N use: labels")
				}
				cur.Use[n] = labels
			}
		case "sortspec":
			if cur == nil {
				return fail(ll, "sortspec outside func")
			}
			stags, srest := splitTags(rest)
			cur.SortTags = stags
			for _, part := range strings.Split(srest, ";") {
				part = strings.TrimSpace(part)
				if part == "" {
					continue
				}
				k, v := splitLabel(part)
				switch k {
				case "slice", "flag":
					e, err := parseExprString(v)
					if err != nil {
						return fail(ll, err)
					}
					if k == "slice" {
						cur.SortSlice = e
					} else {
						cur.SortFlag = e
					}
				case "conflict":
					cur.SortConflict = strings.TrimSpace(v)
				case "less":
					cur.SortLess = strings.TrimSpace(v)
				default:
					return fail(ll, "sortspec: unknown key "+k)
				}
			}
		case "before":
			if cur == nil {
				return fail(ll, "before outside func")
			}
			{
				var n int
				if strings.HasPrefix(strings.TrimSpace(rest), "return") {
					// before return N:  ghost assertions at the N-th return statement (source order); they may name body locals
					spec := strings.TrimSuffix(strings.TrimSpace(strings.TrimPrefix(strings.TrimSpace(rest), "return")), ":")
					fmt.Sscanf(spec, "%d", &n)
					if n <= 0 {
						return fail(ll, "before return N:")
					}
					curCall = -(retBase + n)
					curLoop = nil
					break
				}
				spec := strings.TrimSuffix(strings.TrimSpace(strings.TrimPrefix(rest, "call")), ":")
				if strings.HasSuffix(strings.TrimSpace(spec), "cut") {
					spec = strings.TrimSpace(strings.TrimSuffix(strings.TrimSpace(spec), "cut"))
					fmt.Sscanf(spec, "%d", &n)
					if n > 0 {
						cur.Cuts[-n] = true
					}
				}
				fmt.Sscanf(spec, "%d", &n)
				if n <= 0 {
					return fail(ll, "before call N [cut]:")
				}
				curCall = -n
				curLoop = nil
			}
		case "after":
			if cur == nil {
				return fail(ll, "after outside func")
			}
			var n int
			spec := strings.TrimSuffix(strings.TrimSpace(strings.TrimPrefix(rest, "call")), ":")
			isCut := false
			if strings.HasSuffix(strings.TrimSpace(spec), "cut") {
				isCut = true
				spec = strings.TrimSpace(strings.TrimSuffix(strings.TrimSpace(spec), "cut"))
			}
			fmt.Sscanf(spec, "%d", &n)
			if n <= 0 {
				return fail(ll, "after call N [cut]:")
			}
			if isCut {
				cur.Cuts[n] = true
			}
			curCall = n
			curLoop = nil
		case "assert":
			if cur == nil || curCall == 0 {
				return fail(ll, "assert outside 'after call N:'")
			}
			tags, r := splitTags(rest)
			label, body := splitLabel(r)
			e, err := parseExprString(body)
			if err != nil {
				return fail(ll, err)
			}
			if curCall < 0 {
				cur.Before[-curCall] = append(cur.Before[-curCall], &Clause{Kind: "assert", Tags: tags, Label: label, E: e, Src: body})
			} else {
				cur.Asserts[curCall] = append(cur.Asserts[curCall], &Clause{Kind: "assert", Tags: tags, Label: label, E: e, Src: body})
			}
		case "hint":
			// hint <obligation suffix>: label, label, ...  (only the named quantified hypotheses are used for that obligation)
			if cur == nil {
				return fail(ll, "hint outside func")
			}
			i := strings.Index(rest, ":")
			if i < 0 {
				return fail(ll, "hint <obligation>: labels")
			}
			hs := map[string]bool{}
			for _, f := range strings.Split(rest[i+1:], ",") {
				if f = strings.TrimSpace(f); f != "" {
					hs[f] = true
				}
			}
			if cur.Hints == nil {
				cur.Hints = map[string]map[string]bool{}
			}
			cur.Hints[strings.TrimSpace(rest[:i])] = hs
		case "loop":
			curCall = 0
			if cur == nil {
				return fail(ll, "loop outside func")
			}
			var n int
			hd := strings.TrimSuffix(strings.TrimSpace(rest), ":")
			isCut := false
			if strings.HasSuffix(hd, " cut") {
				isCut = true
				hd = strings.TrimSpace(strings.TrimSuffix(hd, " cut"))
			}
			fmt.Sscanf(hd, "%d", &n)
			if n <= 0 {
				return fail(ll, "loop N:")
			}
			curLoop = &LoopSpec{N: n, Cut: isCut}
			cur.Loops[n] = curLoop
		default:
			return fail(ll, "unknown declaration: "+kw)
		}
	}
	return nil
}

func splitTags(s string) ([]string, string) {
	s = strings.TrimSpace(s)
	if strings.HasPrefix(s, "[") {
		if j := strings.Index(s, "]"); j > 0 {
			inner := s[1:j]
			ok := true
			for _, f := range strings.Split(inner, ",") {
				f = strings.TrimSpace(f)
				if len(f) < 2 || f[0] != 'C' {
					ok = false
				}
			}
			if ok {
				var tags []string
				for _, f := range strings.Split(inner, ",") {
					tags = append(tags, strings.TrimSpace(f))
				}
				return tags, strings.TrimSpace(s[j+1:])
			}
		}
	}
	return nil, s
}

// splitLabel: "label: expr" -> label, expr  (label is an identifier directly followed by ':' and not '::')
func splitLabel(s string) (string, string) {
	s = strings.TrimSpace(s)
	j := 0
	for j < len(s) && (s[j] == '_' || s[j] >= 'a' && s[j] <= 'z' || s[j] >= 'A' && s[j] <= 'Z' || s[j] >= '0' && s[j] <= '9') {
		j++
	}
	if j > 0 && j < len(s) && s[j] == ':' && !(j+1 < len(s) && s[j+1] == ':') {
		return s[:j], strings.TrimSpace(s[j+1:])
	}
	return "", s
}

// parseFuncHeader: "(*ConnectionSet).Union" or "MakePortSet" or "interval.(*CanonicalSet).Union(c, o) (res)"
func parseFuncHeader(s string) (key string, params, results []string) {
	s = strings.TrimSpace(s)
	// find parameter list: the first '(' that follows an identifier char
	depth := 0
	split := -1
	for i := 0; i < len(s); i++ {
		c := s[i]
		if c == '(' {
			if depth == 0 && i > 0 && (isIdentChar(s[i-1])) {
				split = i
				break
			}
			depth++
		} else if c == ')' {
			depth--
		}
	}
	if split < 0 {
		return s, nil, nil
	}
	key = strings.TrimSpace(s[:split])
	rest := s[split:]
	// params
	end := strings.Index(rest, ")")
	for _, f := range strings.Split(rest[1:end], ",") {
		f = strings.TrimSpace(f)
		if f != "" {
			params = append(params, strings.Fields(f)[0])
		}
	}
	rest = strings.TrimSpace(rest[end+1:])
	rest = strings.Trim(rest, "()")
	for _, f := range strings.Split(rest, ",") {
		f = strings.TrimSpace(f)
		if f != "" {
			results = append(results, strings.Fields(f)[0])
		}
	}
	return
}

func isIdentChar(c byte) bool {
	return c == '_' || c >= 'a' && c <= 'z' || c >= 'A' && c <= 'Z' || c >= '0' && c <= '9'
}

// parseModifies: comma separated items at top level:
//
//	Type.Field { r | pred }      array form
//	ghostname { r | pred }       ghost array form
//	map[K]V { m | pred }         map contents
//	x.f                          single location
//	m[*]                         contents of map m
func parseModifies(s string) (out []*ModClause, err error) {
	defer func() {
		if r := recover(); r != nil {
			err = fmt.Errorf("%v in modifies %q", r, s)
		}
	}()
	toks, err := lex(s)
	if err != nil {
		return nil, err
	}
	p := &parser{toks: toks}
	for {
		start := p.p
		// try array form: type [. field] '{'
		ok := func() (ok bool) {
			defer func() {
				if r := recover(); r != nil {
					ok = false
				}
			}()
			mc := &ModClause{Kind: "array"}
			if p.isId("map") || p.isOp("*") {
				mc.TypeX = p.parseType()
			} else {
				name := p.ident()
				if p.isOp(".") {
					p.next()
					n2 := p.ident()
					if p.isOp(".") {
						p.next()
						mc.TypeX = &TypeExpr{Kind: "name", Pkg: name, Name: n2}
						mc.Field = p.ident()
					} else {
						mc.TypeX = &TypeExpr{Kind: "name", Name: name}
						mc.Field = n2
					}
				} else {
					mc.Field = name // ghost
				}
			}
			if !p.isOp("{") {
				return false
			}
			p.next()
			mc.Var = p.ident()
			p.expectOp("|")
			mc.Pred = p.parseExpr()
			p.expectOp("}")
			out = append(out, mc)
			return true
		}()
		if !ok {
			p.p = start
			e := p.parsePostfix()
			if p.isOp("[*]") {
				p.next()
				out = append(out, &ModClause{Kind: "mapall", X: e})
			} else {
				out = append(out, &ModClause{Kind: "loc", X: e})
			}
		}
		if p.isOp(",") {
			p.next()
			continue
		}
		break
	}
	if p.peek().k != "eof" {
		return nil, fmt.Errorf("trailing tokens at %q in modifies %q", p.peek().v, s)
	}
	return out, nil
}
