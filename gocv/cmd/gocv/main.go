package main

import (
	"flag"
	"fmt"
	"golang.org/x/tools/go/ssa"
	"os"
	"regexp"
	"sort"
	"strings"
	"time"
)

func main() {
	if len(os.Args) < 2 {
		fmt.Fprintln(os.Stderr, "usage: gocv verify|check ...")
		os.Exit(2)
	}
	switch os.Args[1] {
	case "verify":
		cmdVerify(os.Args[2:])
	case "check":
		cmdCheck(os.Args[2:])
	case "replay":
		cmdReplay(os.Args[2:])
	default:
		fmt.Fprintln(os.Stderr, "unknown command")
		os.Exit(2)
	}
}

func cmdVerify(args []string) {
	fs := flag.NewFlagSet("verify", flag.ExitOnError)
	repo := fs.String("repo", "/repo", "repository")
	pat := fs.String("pkg", "./pkg/...", "package pattern(s), comma separated")
	fre := fs.String("func", ".", "regexp on short function name")
	to := fs.Int("timeout", 20, "solver timeout (s)")
	specDir := fs.String("spec", "/verif/spec", "spec dir")
	work := fs.String("work", "/verif/.work", "work dir")
	showOK := fs.Bool("v", false, "show discharged obligations")
	showCalls := fs.Bool("calls", false, "print call ordinals of the matching functions")
	nocache := fs.Bool("nocache", false, "ignore cache")
	onlyContracted := fs.Bool("contracted", false, "only functions with a contract")
	obRe := fs.String("ob", "", "only obligations whose name matches this regexp")
	keepQ := fs.Bool("keep", false, "keep the query files of the selected obligations (prints their paths)")
	fs.Parse(args)
	t0 := time.Now()
	w, err := LoadWorld(*repo, strings.Split(*pat, ","))
	if err != nil {
		fmt.Fprintln(os.Stderr, err)
		os.Exit(3)
	}
	if err := w.LoadAllSpecs(*specDir); err != nil {
		fmt.Fprintln(os.Stderr, "spec error:", err)
		os.Exit(3)
	}
	fmt.Printf("loaded %d functions in %.1fs\n", len(w.FuncList), time.Since(t0).Seconds())
	re := regexp.MustCompile(*fre)
	var obs []*Obligation
	for _, fn := range w.FuncList {
		short := shortFuncName(fn)
		if !re.MatchString(short) {
			continue
		}
		sp := w.specFor(fn)
		if *onlyContracted && sp == nil {
			continue
		}
		if *showCalls {
			printCallOrdinals(w, fn)
			ws := w.writeSetOf(fn)
			fmt.Printf("  write set (all=%v): %v\n", ws.all, ws.sorted())
			if sp != nil {
				for _, h := range sp.Hide {
					if fd, ok := w.Specs.Funs[h]; ok {
						rs := w.opaqueInfo(fd, w.ctxFor(fd.PkgPath, fd.File))
						var ns []string
						for n := range rs.arrs {
							ns = append(ns, n)
						}
						sort.Strings(ns)
						fmt.Printf("  read set of %s (next=%v): %v\n", h, rs.next, ns)
					}
				}
			}
		}
		if sp != nil && sp.Opaque {
			continue
		}
		vc, err := w.TranslateFunction(fn, VerifyOpts{SafetyTags: []string{"C12"}})
		if err != nil {
			fmt.Printf("TRANSLATE-ERROR %v\n", err)
			continue
		}
		for _, n := range vc.unsupported {
			fmt.Printf("  unsupported: %s\n", n)
		}
		for _, n := range vc.notes {
			fmt.Printf("  note: %s\n", n)
		}
		obs = append(obs, vc.obs...)
	}
	if lobs, err := w.LemmaObligations(""); err == nil {
		for _, ob := range lobs {
			if re.MatchString(ob.Name) {
				obs = append(obs, ob)
			}
		}
	} else {
		fmt.Println("LEMMA-ERROR", err)
	}
	if *obRe != "" {
		ore := regexp.MustCompile(*obRe)
		var sel []*Obligation
		for _, ob := range obs {
			if ore.MatchString(ob.Name) {
				sel = append(sel, ob)
			}
		}
		obs = sel
	}
	if *keepQ {
		for i, ob := range obs {
			f := fmt.Sprintf("/tmp/q_%d.smt2", i)
			os.WriteFile(f, []byte("(set-logic ALL)\n"+ob.vc.Query(ob)), 0o644)
			fmt.Printf("query %s -> %s\n", ob.Name, f)
		}
	}
	s := NewSolver(*work)
	s.TimeoutS = *to
	s.NoCache = *nocache
	t1 := time.Now()
	s.DischargeAll(obs, 12)
	sort.SliceStable(obs, func(i, j int) bool { return obs[i].Name < obs[j].Name })
	n := map[string]int{}
	for _, ob := range obs {
		n[ob.Status]++
		if ob.Status != "discharged" || *showOK || ob.TimeS > 2 {
			fmt.Printf("%-11s %s  [%s] %s %.1fs %s\n", ob.Status, ob.Name, ob.Pos, ob.Solver, ob.TimeS, ob.Output)
		}
	}
	fmt.Printf("obligations=%d %v solve=%.1fs total=%.1fs\n", len(obs), n, time.Since(t1).Seconds(), time.Since(t0).Seconds())
}

func printCallOrdinals(w *World, fn *ssa.Function) {
	var calls []*ssa.Call
	for _, b := range fn.Blocks {
		for _, i := range b.Instrs {
			if c, ok := i.(*ssa.Call); ok {
				if _, isB := c.Common().Value.(*ssa.Builtin); isB {
					continue
				}
				calls = append(calls, c)
			}
		}
	}
	sort.SliceStable(calls, func(i, j int) bool { return calls[i].Pos() < calls[j].Pos() })
	for i, c := range calls {
		name := "?"
		if f := c.Common().StaticCallee(); f != nil {
			name = shortFuncName(f)
		} else if c.Common().IsInvoke() {
			name = "invoke " + c.Common().Method.Name()
		}
		fmt.Printf("  call %d: %s at %s\n", i+1, name, w.pos(c.Pos()))
	}
}
