package main

import (
	"fmt"
	"os"
	"path/filepath"
	"regexp"
	"sort"
	"strings"

	"golang.org/x/tools/go/ssa"
)

var reTypeArgs = regexp.MustCompile(`\[[^\]]*\]`)

// resolveKey turns a contract key into the ssa full name.
func (w *World) resolveKey(fs *FuncSpec) (string, error) {
	key := fs.Key
	ctx := w.ctxFor(fs.PkgPath, fs.File)
	pkgPath := fs.PkgPath
	// leading "short." package qualifier?
	if i := strings.Index(key, "."); i > 0 && isIdentStr(key[:i]) {
		short := key[:i]
		rest := key[i+1:]
		if p, ok := ctx.Imports[short]; ok && (strings.HasPrefix(rest, "(") || !strings.Contains(rest, ".")) {
			pkgPath = p
			key = rest
		} else if strings.HasPrefix(rest, "(") {
			return "", fmt.Errorf("unknown package %q in contract key %q", short, fs.Key)
		}
	}
	if pkgPath == "" {
		return "", fmt.Errorf("contract key %q has no package context", fs.Key)
	}
	if strings.HasPrefix(key, "(*") {
		j := strings.Index(key, ")")
		return "(*" + pkgPath + "." + key[2:j] + ")" + key[j+1:], nil
	}
	if strings.HasPrefix(key, "(") {
		j := strings.Index(key, ")")
		return "(" + pkgPath + "." + key[1:j] + ")" + key[j+1:], nil
	}
	return pkgPath + "." + key, nil
}

func isIdentStr(s string) bool {
	if s == "" {
		return false
	}
	for i := 0; i < len(s); i++ {
		if !isIdentChar(s[i]) {
			return false
		}
	}
	return true
}

func (w *World) ResolveSpecs() error {
	w.specOf = map[*ssa.Function]*FuncSpec{}
	for _, fs := range w.Specs.RawFn {
		full, err := w.resolveKey(fs)
		if err != nil {
			return fmt.Errorf("%s:%d: %v", filepath.Base(fs.File), fs.Line, err)
		}
		if _, dup := w.Specs.Funcs[full]; dup {
			return fmt.Errorf("%s:%d: duplicate contract for %s", filepath.Base(fs.File), fs.Line, full)
		}
		w.Specs.Funcs[full] = fs
		if !fs.Extern {
			fn, ok := w.Funcs[full]
			if !ok {
				fmt.Fprintf(os.Stderr, "ORPHANED contract %s (%s:%d): no such function in the loaded packages\n", full, filepath.Base(fs.File), fs.Line)
				w.Orphaned = append(w.Orphaned, full)
				continue
			}
			fs.fn = fn
			w.specOf[fn] = fs
		}
	}
	return nil
}

func (w *World) specFor(fn *ssa.Function) *FuncSpec {
	if sp, ok := w.specOf[fn]; ok {
		return sp
	}
	name := fn.String()
	sp := w.Specs.Funcs[name]
	if sp == nil {
		if stripped := reTypeArgs.ReplaceAllString(name, ""); stripped != name {
			sp = w.Specs.Funcs[stripped]
		}
	}
	if sp != nil && sp.fn == nil {
		sp.fn = fn
	}
	w.specOf[fn] = sp
	return sp
}

// LoadAllSpecs loads /verif/spec/*.gspec and the contract files in the repository packages.
func (w *World) LoadAllSpecs(specDir string) error {
	w.Specs = NewSpecDB()
	files, _ := filepath.Glob(filepath.Join(specDir, "*.gspec"))
	sort.Strings(files)
	for _, f := range files {
		if err := w.Specs.LoadSpecFile(f, ""); err != nil {
			return err
		}
	}
	var paths []string
	for p := range w.SSAPkgs {
		paths = append(paths, p)
	}
	sort.Strings(paths)
	for _, p := range paths {
		pkg := w.AllPkgs[p]
		if pkg == nil {
			continue
		}
		dirs := map[string]bool{}
		for _, f := range pkg.GoFiles {
			dirs[filepath.Dir(f)] = true
		}
		for d := range dirs {
			cands, _ := filepath.Glob(filepath.Join(d, "zz_verif_contracts*.go"))
			sort.Strings(cands)
			for _, c := range cands {
				if err := w.Specs.LoadSpecFile(c, p); err != nil {
					return err
				}
			}
		}
	}
	return w.ResolveSpecs()
}
