package main

import (
	"go/types"
	"go/token"
	"fmt"
	"os"
	"path/filepath"
	"regexp"
	"sort"
	"strings"

	"golang.org/x/tools/go/ssa"
)

var reTypeArgs = regexp.MustCompile(`\[[^\]]*\]`)

// resolveKey turns a contract key into the ssa full name.
func (w *World) resolveKey(fs *FuncSpec) (string, error) {
	key := fs.Key
	ctx := w.ctxFor(fs.PkgPath, fs.File)
	pkgPath := fs.PkgPath
	// leading "short." package qualifier?
	if i := strings.Index(key, "."); i > 0 && isIdentStr(key[:i]) {
		short := key[:i]
		rest := key[i+1:]
		if p, ok := ctx.Imports[short]; ok && (strings.HasPrefix(rest, "(") || !strings.Contains(rest, ".")) {
			pkgPath = p
			key = rest
		} else if strings.HasPrefix(rest, "(") {
			return "", fmt.Errorf("unknown package %q in contract key %q", short, fs.Key)
		}
	}
	if pkgPath == "" {
		return "", fmt.Errorf("contract key %q has no package context", fs.Key)
	}
	if strings.HasPrefix(key, "(*") {
		j := strings.Index(key, ")")
		return "(*" + pkgPath + "." + key[2:j] + ")" + key[j+1:], nil
	}
	if strings.HasPrefix(key, "(") {
		j := strings.Index(key, ")")
		return "(" + pkgPath + "." + key[1:j] + ")" + key[j+1:], nil
	}
	return pkgPath + "." + key, nil
}

func isIdentStr(s string) bool {
	if s == "" {
		return false
	}
	for i := 0; i < len(s); i++ {
		if !isIdentChar(s[i]) {
			return false
		}
	}
	return true
}

func (w *World) ResolveSpecs() error {
	w.specOf = map[*ssa.Function]*FuncSpec{}
	for _, fs := range w.Specs.RawFn {
		full, err := w.resolveKey(fs)
		if err != nil {
			return fmt.Errorf("%s:%d: %v", filepath.Base(fs.File), fs.Line, err)
		}
		if _, dup := w.Specs.Funcs[full]; dup {
			return fmt.Errorf("%s:%d: duplicate contract for %s", filepath.Base(fs.File), fs.Line, full)
		}
		w.Specs.Funcs[full] = fs
		if !fs.Extern {
			fn, ok := w.Funcs[full]
			if !ok {
				fmt.Fprintf(os.Stderr, "ORPHANED contract %s (%s:%d): no such function in the loaded packages\n", full, filepath.Base(fs.File), fs.Line)
				w.Orphaned = append(w.Orphaned, full)
				continue
			}
			fs.fn = fn
			w.specOf[fn] = fs
		}
	}
	return nil
}

func (w *World) specFor(fn *ssa.Function) *FuncSpec {
	if sp, ok := w.specOf[fn]; ok {
		return sp
	}
	name := fn.String()
	sp := w.Specs.Funcs[name]
	if sp == nil {
		if stripped := reTypeArgs.ReplaceAllString(name, ""); stripped != name {
			sp = w.Specs.Funcs[stripped]
		}
	}
	if sp != nil && sp.fn == nil {
		sp.fn = fn
	}
	w.specOf[fn] = sp
	return sp
}

// LoadAllSpecs loads /verif/spec/*.gspec and the contract files in the repository packages.
func (w *World) LoadAllSpecs(specDir string) error {
	w.Specs = NewSpecDB()
	files, _ := filepath.Glob(filepath.Join(specDir, "*.gspec"))
	sort.Strings(files)
	for _, f := range files {
		if err := w.Specs.LoadSpecFile(f, ""); err != nil {
			return err
		}
	}
	var paths []string
	for p := range w.SSAPkgs {
		paths = append(paths, p)
	}
	sort.Strings(paths)
	for _, p := range paths {
		pkg := w.AllPkgs[p]
		if pkg == nil {
			continue
		}
		dirs := map[string]bool{}
		for _, f := range pkg.GoFiles {
			dirs[filepath.Dir(f)] = true
		}
		for d := range dirs {
			cands, _ := filepath.Glob(filepath.Join(d, "zz_verif_contracts*.go"))
			sort.Strings(cands)
			for _, c := range cands {
				if err := w.Specs.LoadSpecFile(c, p); err != nil {
					return err
				}
			}
		}
	}
	if err := w.ResolveSpecs(); err != nil {
		return err
	}
	return w.registerFunctional()
}

// registerFunctional handles the `functional <name>` directive: checks that the function's result is a function of
// its (value-typed) arguments and registers <name> as an uninterpreted specification function with its signature.
func (w *World) registerFunctional() error {
	for _, fn := range w.FuncList {
		sp := w.specFor(fn)
		if sp == nil || sp.Functional == "" {
			continue
		}
		if why := notFunctional(fn); why != "" {
			return fmt.Errorf("%s: `functional %s` rejected: %s", shortFuncName(fn), sp.Functional, why)
		}
		sig := fn.Signature
		fd := &FunDef{Name: sp.Functional, PkgPath: sp.PkgPath, File: sp.File, Ret: &TypeExpr{Kind: "resolved", Go: sig.Results().At(0).Type()}}
		for i := 0; i < sig.Params().Len(); i++ {
			fd.Params = append(fd.Params, Binder{Name: sig.Params().At(i).Name(), Type: &TypeExpr{Kind: "resolved", Go: sig.Params().At(i).Type()}})
		}
		if _, dup := w.Specs.Funs[fd.Name]; dup {
			return fmt.Errorf("functional %s: name already defined", fd.Name)
		}
		w.Specs.Funs[fd.Name] = fd
	}
	return nil
}

// valueType: no pointer, map, interface, channel or function anywhere inside t.
func valueType(t types.Type, depth int) bool {
	if depth > 8 {
		return false
	}
	switch u := types.Unalias(t).Underlying().(type) {
	case *types.Basic:
		return u.Kind() != types.UnsafePointer
	case *types.Slice:
		return valueType(u.Elem(), depth+1)
	case *types.Array:
		return valueType(u.Elem(), depth+1)
	case *types.Struct:
		for i := 0; i < u.NumFields(); i++ {
			if !valueType(u.Field(i).Type(), depth+1) {
				return false
			}
		}
		return true
	}
	return false
}

// notFunctional returns "" if fn's single result is determined by its arguments: value-typed signature, no receiver,
// no access to the heap or to package state, no map iteration, no calls other than the value builtins.
func notFunctional(fn *ssa.Function) string {
	sig := fn.Signature
	if sig.Recv() != nil || sig.Results().Len() != 1 || len(fn.FreeVars) > 0 {
		return "needs a plain function with one result"
	}
	// (references inside the arguments are harmless: the checks below forbid every load through them)
	for _, b := range fn.Blocks {
		for _, in := range b.Instrs {
			switch in := in.(type) {
			case *ssa.Alloc:
				if in.Heap && !usedAsVariableOnly(in, 0) {
					return "heap allocation that escapes"
				}
			case *ssa.Store:
				if rootVariable(in.Addr) == nil {
					return "store outside local variables"
				}
			case *ssa.UnOp:
				if in.Op == token.MUL && rootVariable(in.X) == nil {
					return "load outside local variables"
				}
				if in.Op == token.ARROW {
					return "channel receive"
				}
			case *ssa.Call:
				bi, ok := in.Common().Value.(*ssa.Builtin)
				if !ok {
					if in.Common().Value.Name() == "ssa:deferstack" {
						continue
					}
					return "call of " + in.Common().Value.Name()
				}
				switch bi.Name() {
				case "append", "len", "cap", "min", "max", "ssa:wrapnilchk", "ssa:deferstack":
				default:
					return "builtin " + bi.Name()
				}
			case *ssa.MapUpdate, *ssa.MakeMap, *ssa.MakeChan, *ssa.MakeClosure, *ssa.MakeInterface, *ssa.Go, *ssa.Defer, *ssa.Send, *ssa.Select, *ssa.TypeAssert, *ssa.Panic:
				return fmt.Sprintf("%T", in)
			case *ssa.Range:
				return "range over a map or string"
			case *ssa.Lookup:
				if _, isMap := in.X.Type().Underlying().(*types.Map); isMap {
					return "map lookup"
				}
			}
			for _, op := range in.Operands(nil) {
				if op != nil && *op != nil {
					if _, isG := (*op).(*ssa.Global); isG {
						return "package-level variable"
					}
				}
			}
		}
	}
	return ""
}

// usedAsVariableOnly: the address v is only loaded from, stored to, or refined to a field / element address that is
// used the same way - it never flows anywhere as a value.
func usedAsVariableOnly(v ssa.Value, depth int) bool {
	if depth > 6 || v.Referrers() == nil {
		return false
	}
	for _, ref := range *v.Referrers() {
		switch r := ref.(type) {
		case *ssa.Store:
			if r.Val == v {
				return false
			}
		case *ssa.UnOp:
			if r.Op != token.MUL {
				return false
			}
		case *ssa.FieldAddr:
			if !usedAsVariableOnly(r, depth+1) {
				return false
			}
		case *ssa.IndexAddr:
			if r.X != v || !usedAsVariableOnly(r, depth+1) {
				return false
			}
		case *ssa.Slice:
			// the backing array of a fresh slice (make with constant size, variadic arguments): slices are values (A-append)
			if _, isArr := v.Type().Underlying().(*types.Pointer).Elem().Underlying().(*types.Array); !isArr || r.X != v {
				return false
			}
		case *ssa.DebugRef:
		default:
			return false
		}
	}
	return true
}

// rootVariable is rootLocal extended to heap-flagged allocs that are used as plain variables.
func rootVariable(addr ssa.Value) *ssa.Alloc {
	if a := rootLocal(addr); a != nil {
		return a
	}
	for {
		switch a := addr.(type) {
		case *ssa.Alloc:
			if usedAsVariableOnly(a, 0) {
				return a
			}
			return nil
		case *ssa.FieldAddr:
			addr = a.X
		case *ssa.IndexAddr:
			if _, isPtr := a.X.Type().Underlying().(*types.Pointer); isPtr {
				addr = a.X
			} else if u, ok := a.X.(*ssa.UnOp); ok && u.Op == token.MUL {
				addr = u.X
			} else {
				return nil
			}
		default:
			return nil
		}
	}
}
