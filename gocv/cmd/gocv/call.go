package main

import (
	"fmt"
	"go/token"
	"go/types"
	"sort"
	"strings"

	"golang.org/x/tools/go/ssa"
)

func sortStrings(s []string) { sort.Strings(s) }

// ---------- write sets ----------

type WriteSet struct {
	arrs map[string]bool
	all  bool
}

func newWriteSet() *WriteSet { return &WriteSet{arrs: map[string]bool{}} }

func (ws *WriteSet) add(a *ArrInfo) { ws.arrs[a.Name] = true }
func (ws *WriteSet) union(o *WriteSet) bool {
	ch := false
	if o.all && !ws.all {
		ws.all = true
		ch = true
	}
	for k := range o.arrs {
		if !ws.arrs[k] {
			ws.arrs[k] = true
			ch = true
		}
	}
	return ch
}
func (ws *WriteSet) sorted() []string {
	var out []string
	for k := range ws.arrs {
		out = append(out, k)
	}
	sort.Strings(out)
	return out
}

// storeTarget resolves the heap array family a store through addr writes to (nil, nil = local or dropped).
func (w *World) storeTargets(addr ssa.Value) []*ArrInfo {
	type step struct {
		field int
		st    types.Type
		isIdx bool
	}
	var first *step
	cur := addr
	for {
		switch a := cur.(type) {
		case *ssa.FieldAddr:
			stt := a.X.Type().Underlying().(*types.Pointer).Elem()
			first = &step{field: a.Field, st: stt}
			cur = a.X
			continue
		case *ssa.IndexAddr:
			if _, isPtr := a.X.Type().Underlying().(*types.Pointer); isPtr {
				first = &step{isIdx: true}
				cur = a.X
				continue
			}
			// slice value: follow origin
			if u, ok := a.X.(*ssa.UnOp); ok && u.Op == token.MUL {
				first = &step{isIdx: true}
				cur = u.X
				continue
			}
			if ct, ok := a.X.(*ssa.ChangeType); ok {
				if u, ok := ct.X.(*ssa.UnOp); ok && u.Op == token.MUL {
					first = &step{isIdx: true}
					cur = u.X
					continue
				}
			}
			return nil
		case *ssa.ChangeType:
			cur = a.X
			continue
		}
		break
	}
	switch a := cur.(type) {
	case *ssa.Alloc:
		if !a.Heap {
			return nil
		}
	case *ssa.Global:
		elem := a.Type().(*types.Pointer).Elem()
		return []*ArrInfo{w.heapArr("glob!"+sanitize(a.Pkg.Pkg.Name()+"."+a.Name()), w.S.SortOf(elem))}
	}
	pt, ok := cur.Type().Underlying().(*types.Pointer)
	if !ok {
		return nil
	}
	elem := pt.Elem()
	if _, isStruct := elem.Underlying().(*types.Struct); isStruct {
		if first != nil && !first.isIdx {
			return []*ArrInfo{w.fieldArr(elem, first.field)}
		}
		var out []*ArrInfo
		for _, i := range sortedKeys(w.S.structInfo(elem).Fields) {
			out = append(out, w.fieldArr(elem, i))
		}
		return out
	}
	return []*ArrInfo{w.boxArr(elem)}
}

func (w *World) instrWrites(fn *ssa.Function, in ssa.Instruction, ws *WriteSet) {
	switch in := in.(type) {
	case *ssa.Store:
		for _, a := range w.storeTargets(in.Addr) {
			ws.add(a)
		}
	case *ssa.MapUpdate:
		md, mv := w.mapArrs(in.Map.Type().Underlying().(*types.Map))
		ws.add(md)
		ws.add(mv)
	case *ssa.MakeMap:
		md, mv := w.mapArrs(in.Type().Underlying().(*types.Map))
		ws.add(md)
		ws.add(mv)
	case *ssa.Alloc:
		if in.Heap {
			elem := in.Type().(*types.Pointer).Elem()
			if _, isStruct := elem.Underlying().(*types.Struct); isStruct {
				for _, i := range sortedKeys(w.S.structInfo(elem).Fields) {
					ws.add(w.fieldArr(elem, i))
				}
			} else {
				ws.add(w.boxArr(elem))
			}
		}
	case ssa.CallInstruction:
		if _, isDefer := in.(*ssa.Defer); isDefer {
			return
		}
		if _, isGo := in.(*ssa.Go); isGo {
			return
		}
		ws.union(w.callWrites(in.Common()))
	}
}

// callWrites: heap arrays a call may write (over-approximation).
func (w *World) callWrites(c *ssa.CallCommon) *WriteSet {
	ws := newWriteSet()
	addClosureArgs := func() {
		for _, a := range c.Args {
			if mc, ok := a.(*ssa.MakeClosure); ok {
				ws.union(w.writeSetOf(mc.Fn.(*ssa.Function)))
			} else if _, isSig := a.Type().Underlying().(*types.Signature); isSig {
				if f, ok := a.(*ssa.Function); ok {
					ws.union(w.writeSetOf(f))
				} else {
					ws.all = true
				}
			}
		}
	}
	if b, ok := c.Value.(*ssa.Builtin); ok {
		if b.Name() == "delete" {
			md, _ := w.mapArrs(c.Args[0].Type().Underlying().(*types.Map))
			ws.add(md)
		}
		return ws
	}
	if c.IsInvoke() {
		it := c.Value.Type().Underlying().(*types.Interface)
		if w.isRepoInterface(c.Value.Type()) {
			for _, impl := range w.implementersOf(it) {
				if f := w.Prog.LookupMethod(impl, c.Method.Pkg(), c.Method.Name()); f != nil {
					ws.union(w.calleeWrites(f))
				}
			}
		} else if sp := w.Specs.Funcs[c.Method.FullName()]; sp != nil {
			ws.union(w.specWrites(sp))
		}
		addClosureArgs()
		return ws
	}
	callee := c.StaticCallee()
	if callee == nil {
		if mc, ok := c.Value.(*ssa.MakeClosure); ok {
			ws.union(w.writeSetOf(mc.Fn.(*ssa.Function)))
			return ws
		}
		ws.all = true
		return ws
	}
	ws.union(w.calleeWrites(callee))
	addClosureArgs()
	return ws
}

func (w *World) calleeWrites(callee *ssa.Function) *WriteSet {
	if callee.Blocks != nil && callee.Pkg != nil && isRepoPkg(callee.Pkg.Pkg.Path()) {
		sp := w.specFor(callee)
		if sp != nil && sp.Opaque {
			return w.specWrites(sp)
		}
		return w.writeSetOf(callee)
	}
	if sp := w.specFor(callee); sp != nil {
		return w.specWrites(sp)
	}
	return newWriteSet()
}

func (w *World) specWrites(sp *FuncSpec) *WriteSet {
	ws := newWriteSet()
	ctx := w.ctxFor(sp.PkgPath, sp.File)
	for _, mc := range sp.Modifies {
		switch mc.Kind {
		case "array":
			if mc.TypeX != nil {
				ty := w.resolveType(mc.TypeX, ctx)
				if m, ok := types.Unalias(ty.Go).Underlying().(*types.Map); ok {
					md, mv := w.mapArrs(m)
					ws.add(md)
					ws.add(mv)
				} else if pt, ok := types.Unalias(ty.Go).Underlying().(*types.Pointer); ok && mc.Field == "" {
					ws.add(w.boxArr(pt.Elem()))
				} else {
					_, index, _ := types.LookupFieldOrMethod(ty.Go, true, nil, mc.Field)
					if len(index) == 0 {
						if n, ok := types.Unalias(ty.Go).(*types.Named); ok {
							_, index, _ = types.LookupFieldOrMethod(ty.Go, true, n.Obj().Pkg(), mc.Field)
						}
					}
					if len(index) != 1 {
						panic("modifies: no field " + mc.Field + " in " + ty.String())
					}
					ws.add(w.fieldArr(ty.Go, index[0]))
				}
			} else {
				g, ok := w.Specs.Ghosts[mc.Field]
				if !ok {
					panic("modifies: unknown ghost " + mc.Field)
				}
				ws.add(w.ghostArr(g, w.ctxFor(g.PkgPath, g.File)))
			}
		default:
			// loc / mapall forms need parameter types: resolved lazily through the signature
			ws.union(w.locWrites(sp, mc, ctx))
		}
	}
	return ws
}

// locWrites resolves "x.f" / "m[*]" modifies forms by typing the expression against the function signature.
func (w *World) locWrites(sp *FuncSpec, mc *ModClause, ctx *ResCtx) *WriteSet {
	ws := newWriteSet()
	vars := map[string]binding{}
	if fn := sp.fn; fn != nil {
		for i, name := range paramNames(fn, sp) {
			vars[name] = binding{term: "x", typ: &SType{Go: sigParamType(fn.Signature, i)}}
		}
	}
	vc := NewFuncVC(w, "tmp")
	env := &Env{w: w, vc: vc, cur: &HeapState{vers: map[string]string{}, next: "n"}, vars: vars, ctx: ctx}
	switch mc.Kind {
	case "loc":
		fe := mc.X.(*EField)
		_, bty := env.Eval(fe.X)
		st, ok := isPtrToStruct(bty.Go)
		if !ok {
			panic("modifies: base of " + mc.X.String() + " is not a pointer to struct")
		}
		_, index, _ := types.LookupFieldOrMethod(bty.Go, true, env.pkgFor(bty.Go), fe.Name)
		ws.add(w.fieldArr(st, index[0]))
	case "mapall":
		_, bty := env.Eval(mc.X)
		m := types.Unalias(bty.Go).Underlying().(*types.Map)
		md, mv := w.mapArrs(m)
		ws.add(md)
		ws.add(mv)
	}
	return ws
}

func sigParamType(sig *types.Signature, i int) types.Type {
	if sig.Recv() != nil {
		if i == 0 {
			return sig.Recv().Type()
		}
		i--
	}
	return sig.Params().At(i).Type()
}

func paramNames(fn *ssa.Function, sp *FuncSpec) []string {
	var out []string
	if fn.Blocks != nil {
		for _, p := range fn.Params {
			out = append(out, p.Name())
		}
		return out
	}
	n := fn.Signature.Params().Len()
	if fn.Signature.Recv() != nil {
		n++
	}
	for i := 0; i < n; i++ {
		if sp != nil && i < len(sp.Params) {
			out = append(out, sp.Params[i])
		} else {
			out = append(out, fmt.Sprintf("arg%d", i))
		}
	}
	return out
}

func (w *World) writeSetOf(fn *ssa.Function) *WriteSet {
	if w.writeSets == nil {
		w.writeSets = map[*ssa.Function]*WriteSet{}
	}
	if ws, ok := w.writeSets[fn]; ok {
		return ws
	}
	ws := newWriteSet()
	w.writeSets[fn] = ws // recursion: partial result (fixpoint below)
	for iter := 0; iter < 4; iter++ {
		changed := false
		tmp := newWriteSet()
		for _, b := range fn.Blocks {
			for _, in := range b.Instrs {
				w.instrWrites(fn, in, tmp)
			}
		}
		if ws.union(tmp) {
			changed = true
		}
		if !changed {
			break
		}
	}
	return ws
}

func (w *World) isRepoInterface(t types.Type) bool {
	n, ok := types.Unalias(t).(*types.Named)
	return ok && n.Obj().Pkg() != nil && isRepoPkg(n.Obj().Pkg().Path())
}

func (w *World) implementersOf(it *types.Interface) []types.Type {
	var out []types.Type
	for _, T := range w.allNamedTypes() {
		if _, isIface := T.Underlying().(*types.Interface); isIface {
			continue
		}
		if types.Implements(T, it) {
			out = append(out, T)
		} else if types.Implements(types.NewPointer(T), it) {
			out = append(out, types.NewPointer(T))
		}
	}
	return out
}

// ---------- calls ----------

func (t *Translator) argTerm(st *State, a ssa.Value) string {
	if _, isPtr := a.Type().Underlying().(*types.Pointer); isPtr {
		return t.refOf(st, a)
	}
	return t.val(st, a)
}

func (t *Translator) setResults(in *ssa.Call, res []string) {
	sig := in.Call.Signature()
	switch sig.Results().Len() {
	case 0:
	case 1:
		t.vals[in] = res[0]
	default:
		t.tuples[in] = res
	}
}

func (t *Translator) freshResults(st *State, sig *types.Signature, name string) []string {
	var res []string
	for i := 0; i < sig.Results().Len(); i++ {
		rt := sig.Results().At(i).Type()
		c := t.vc.freshConst("r!"+sanitize(name), t.S().SortOf(rt))
		res = append(res, c)
	}
	return res
}

func (t *Translator) call(st *State, in *ssa.Call) {
	c := in.Common()
	if b, ok := c.Value.(*ssa.Builtin); ok {
		t.builtin(st, in, b)
		return
	}
	t.curCall = 0
	if t.parent == nil && t.spec != nil && (len(t.spec.Use) > 0) {
		t.curCall = t.callOrdinal(in)
	}
	t.curCallOrd = 0
	if t.parent == nil && t.spec != nil && len(t.spec.Hints) > 0 {
		t.curCallOrd = t.callOrdinal(in)
	}
	if t.parent == nil && t.spec != nil && len(t.spec.Before) > 0 {
		if n := t.callOrdinal(in); n > 0 && len(t.spec.Before[n]) > 0 {
			{
				npc := t.vc.newPC("c", st.pc)
				t.vc.assume(npc, st.pc)
				st.pc = npc
				st.pcHasOb = false
			}
			firstAssertPC := st.pc
			for _, cl := range t.spec.Before[n] {
				var li *loopInfo
				if ls := t.inLoops[in.Block()]; len(ls) > 0 {
					li = ls[len(ls)-1]
				}
				t.bodyLocals = true
				env := t.invEnv(st, li)
				t.bodyLocals = false
				if li == nil {
					env.pre = nil
				}
				f, _ := env.Eval(cl.E)
				t.oblige(st, fmt.Sprintf("assert.before%d", n), cl.Label, cl.Tags, f, t.w.pos(in.Pos()), cl.Src)
			}
			if t.spec.Cuts[-n] {
				t.implicitFrameCheck(st, fmt.Sprintf("cutb%d", n), t.w.pos(in.Pos()))
				npc := t.vc.newPC("w", st.pc)
				t.vc.cutAt[npc] = firstAssertPC
				t.vc.assume(npc, st.pc)
				st.pc = npc
				st.pcHasOb = false
				t.implicitFrameAssume(st)
				t.assume(st, "(>= "+st.heap.next+" "+t.entry.heap.next+")")
			}
		}
	}
	var prevHeap *HeapState
	if t.parent == nil && t.spec != nil && len(t.spec.Asserts) > 0 {
		prevHeap = st.heap.clone()
	}
	t.call1(st, in)
	t.stampVersions(st)
	t.curCall = 0
	// ghost assertions attached to this call site
	if t.parent == nil && t.spec != nil && len(t.spec.Asserts) > 0 {
		if n := t.callOrdinal(in); n > 0 && len(t.spec.Asserts[n]) > 0 {
			var newKeys []string
			// cut point: the pc just before the assertions are assumed (the assertions themselves live below it)
			{
				npc := t.vc.newPC("c", st.pc)
				t.vc.assume(npc, st.pc)
				st.pc = npc
				st.pcHasOb = false
			}
			firstAssertPC := st.pc
			for _, cl := range t.spec.Asserts[n] {
				var li *loopInfo
				if ls := t.inLoops[in.Block()]; len(ls) > 0 {
					li = ls[len(ls)-1]
				}
				t.bodyLocals = true
				env := t.invEnv(st, li)
				t.bodyLocals = false
				if li == nil {
					env.pre = nil
				}
				env.prev = prevHeap
				f, _ := env.Eval(cl.E)
				t.oblige(st, fmt.Sprintf("assert.call%d", n), cl.Label, cl.Tags, f, t.w.pos(in.Pos()), cl.Src)
				// oblige() assumed f at the current pc: register it as scoped
				key := st.pc + "\x00" + f
				t.vc.scopeEnd[key] = ""
				newKeys = append(newKeys, key)
			}
			// the previous group of ghost assertions is forgotten from here on (sliding window)
			if t.spec.Cuts[n] {
				t.implicitFrameCheck(st, fmt.Sprintf("cut%d", n), t.w.pos(in.Pos()))
			}
			npc := t.vc.newPC("w", st.pc)
			if t.spec.Cuts[n] {
				t.vc.cutAt[npc] = firstAssertPC
			}
			t.vc.assume(npc, st.pc)
			st.pc = npc
			st.pcHasOb = false
			if t.spec.Cuts[n] {
				t.implicitFrameAssume(st)
				// allocation counter only grows
				t.assume(st, "(>= "+st.heap.next+" "+t.entry.heap.next+")")
			}
			for _, k := range t.vc.openScoped {
				t.vc.scopeEnd[k] = st.pc
			}
			t.vc.openScoped = newKeys
		}
	}
}

// callOrdinal: 1-based index of a call among the non-builtin calls of the function, in source order.
func (t *Translator) callOrdinal(in *ssa.Call) int {
	if t.callOrd == nil {
		t.callOrd = map[*ssa.Call]int{}
		var calls []*ssa.Call
		for _, b := range t.fn.Blocks {
			for _, i := range b.Instrs {
				if c, ok := i.(*ssa.Call); ok {
					if _, isB := c.Common().Value.(*ssa.Builtin); isB {
						continue
					}
					calls = append(calls, c)
				}
			}
		}
		sort.SliceStable(calls, func(i, j int) bool { return calls[i].Pos() < calls[j].Pos() })
		for i, c := range calls {
			t.callOrd[c] = i + 1
		}
	}
	return t.callOrd[in]
}

func (t *Translator) call1(st *State, in *ssa.Call) {
	c := in.Common()
	if c.IsInvoke() {
		t.invoke(st, in)
		return
	}
	callee := c.StaticCallee()
	if callee == nil {
		// dynamic call
		var args []string
		for _, a := range c.Args {
			args = append(args, t.argTerm(st, a))
		}
		ws := t.w.callWrites(c)
		t.vc.note("call through a function value in %s at %s (heap havocked: all=%v)", t.short, t.w.pos(in.Pos()), ws.all)
		t.havocWrites(st, ws, nil, st.heap.clone())
		res := t.freshResults(st, c.Signature(), "dyn")
		for i, r := range res {
			t.assumeTyped(st, r, c.Signature().Results().At(i).Type())
		}
		t.setResults(in, res)
		return
	}
	if callee.String() == "sort.Slice" && t.sortSliceCall(st, in) {
		return
	}
	var args []string
	for _, a := range c.Args {
		args = append(args, t.argTerm(st, a))
	}
	t.setResults(in, t.staticCall(st, in, callee, args, c.Args))
}

// staticCall models a call of a known function: contract, inlining, intrinsic or havoc.
func (t *Translator) staticCall(st *State, in *ssa.Call, callee *ssa.Function, args []string, argVals []ssa.Value) []string {
	spec := t.w.specFor(callee)
	inRepo := callee.Blocks != nil && callee.Pkg != nil && isRepoPkg(callee.Pkg.Pkg.Path())
	if inRepo {
		t.checkCopyInArgs(callee, args, in.Pos())
	}
	if spec == nil && inRepo && t.canInline(callee) {
		return t.inline(st, in, callee, args)
	}
	if spec == nil && !inRepo {
		if res, ok := t.intrinsic(st, in, callee, args); ok {
			return res
		}
		t.vc.note("extern without contract treated as pure with arbitrary result: %s", callee.String())
	}
	if spec == nil && inRepo {
		t.vc.note("callee without contract not inlined: %s (write set havocked)", shortFuncName(callee))
	}
	return t.applyContract(st, callee, spec, args, argVals, "", in.Pos(), nil)
}

// checkCopyInArgs: a boxed copy of an interior pointer may be handed to a callee only if the callee cannot write to
// objects of that type (the write would not reach the enclosing object).
func (t *Translator) checkCopyInArgs(callee *ssa.Function, args []string, pos token.Pos) {
	for _, a := range args {
		ty, ok := t.vc.copyIns[a]
		if !ok {
			continue
		}
		ws := t.w.calleeWrites(callee)
		bad := ws.all
		if stt, isStruct := ty.Underlying().(*types.Struct); isStruct {
			_ = stt
			for _, i := range t.usedFieldIdxs(ty) {
				if ws.arrs[t.w.fieldArr(ty, i).Name] {
					bad = true
				}
			}
		} else if ws.arrs[t.w.boxArr(ty).Name] {
			bad = true
		}
		if bad {
			t.vc.unsupportedf("interior pointer passed to %s, which may write through it, in %s at %s", shortFuncName(callee), t.short, t.w.pos(pos))
		}
	}
}

func (t *Translator) havocWrites(st *State, ws *WriteSet, preds map[string]func(string) string, pre *HeapState) {
	t.havocWritesSpec(st, ws, preds, pre, false)
}

func (t *Translator) havocWritesSpec(st *State, ws *WriteSet, preds map[string]func(string) string, pre *HeapState, modAll bool) {
	if ws.all {
		var names []string
		for n := range t.w.heap.arrs {
			names = append(names, n)
		}
		sort.Strings(names)
		for _, n := range names {
			t.havocArr(st, t.w.heap.arrs[n])
		}
		nn := t.vc.freshConst("next", "Int")
		t.assume(st, "(>= "+nn+" "+pre.next+")")
		st.heap.next = nn
		return
	}
	for _, n := range ws.sorted() {
		a := t.w.heap.arrs[n]
		old := t.arrTerm(a, pre)
		nv := t.havocArr(st, a)
		if isHeapArrayFamily(a) {
			var p func(string) string
			if preds != nil {
				p = preds[n]
			}
			if preds == nil {
				// no contract: anything allocated may change
				continue
			}
			if _, explicit := preds[n]; !explicit && modAll {
				continue
			}
			t.assumeL(st, frameFormula(nv, old, pre.next, p, t.vc.fresh()), fmt.Sprintf("call%d.frame", t.curCallOrd))
		}
	}
}

// applyContract models a call by the callee's contract. guard != "" makes requires/ensures conditional.
// argVals are the ssa values of the arguments (may be nil) used for closure detection.
func (t *Translator) applyContract(st *State, callee *ssa.Function, spec *FuncSpec, args []string, argVals []ssa.Value, guard string, pos token.Pos, sharedRes []string) []string {
	sig := callee.Signature
	name := shortFuncName(callee)
	vars := map[string]binding{}
	names := paramNames(callee, spec)
	for i, n := range names {
		if i < len(args) {
			vars[n] = binding{term: args[i], typ: &SType{Go: sigParamType(sig, i)}}
		}
	}
	var cctx *ResCtx
	if spec != nil {
		pk := spec.PkgPath
		if callee.Pkg != nil && pk == "" {
			pk = callee.Pkg.Pkg.Path()
		}
		cctx = t.w.ctxFor(pk, spec.File)
		spec.Used = true
	} else {
		cctx = t.ctx
	}
	g := func(f string) string {
		if guard == "" {
			return f
		}
		return "(=> " + guard + " " + f + ")"
	}
	pre := st.heap.clone()
	if spec != nil {
		env := &Env{w: t.w, vc: t.vc, cur: pre, old: pre, vars: vars, ctx: cctx}
		for _, c := range spec.Requires {
			f, _ := env.Eval(c.E)
			label := name
			if c.Label != "" {
				label += "." + c.Label
			}
			tags := c.Tags
			if len(tags) == 0 {
				tags = t.safetyTags
			}
			if root := t.root(); root.spec != nil && root.spec.NoSafety {
				// thin contract: callee preconditions are not checked either; they are assumed to hold (stated in the note)
				if !root.noSafetyNoted {
					root.noSafetyNoted = true
					t.vc.note("panic-freedom of the body of %s and the preconditions of its callees are not checked (contract marked nosafety)", root.short)
				}
				t.assume(st, g(f))
				continue
			}
			t.oblige(st, "call.requires@"+label, "", tags, g(f), t.w.pos(pos), c.Src)
		}
	}
	// heap effect
	ws := newWriteSet()
	ws.union(t.w.calleeWrites(callee))
	for _, a := range argVals {
		if mc, ok := a.(*ssa.MakeClosure); ok {
			cw := t.w.writeSetOf(mc.Fn.(*ssa.Function))
			// closure effects are unconstrained
			t.havocWrites(st, cw, nil, pre)
		}
	}
	var preds map[string]func(string) string
	if spec != nil {
		env := &Env{w: t.w, vc: t.vc, cur: pre, old: pre, vars: vars, ctx: cctx}
		preds = t.modPreds2(spec, env)
	}
	if guard == "" {
		t.havocWritesSpec(st, ws, preds, pre, spec != nil && spec.ModAll)
		if len(ws.arrs) > 0 || callee.Blocks != nil || (spec != nil && !spec.Pure) {
			nn := t.vc.freshConst("next", "Int")
			t.assume(st, "(>= "+nn+" "+pre.next+")")
			st.heap.next = nn
		}
	}
	// results
	res := sharedRes
	if res == nil {
		res = t.freshResults(st, sig, callee.Name())
	}
	for i, r := range res {
		for _, f := range t.typeFacts(r, sig.Results().At(i).Type(), st.heap) {
			t.assume(st, g(f))
		}
	}
	if spec != nil {
		ev := map[string]binding{}
		for k, v := range vars {
			ev[k] = v
		}
		rn := spec.Results
		for i, r := range res {
			n := ""
			if i < len(rn) {
				n = rn[i]
			} else if nm := sig.Results().At(i).Name(); nm != "" && nm != "_" {
				n = nm
			} else if len(res) == 1 {
				n = "res"
			} else {
				n = fmt.Sprintf("res%d", i)
			}
			ev[n] = binding{term: r, typ: &SType{Go: sig.Results().At(i).Type()}}
			if len(res) == 1 {
				ev["res"] = ev[n]
			}
			ev[fmt.Sprintf("res%d", i)] = ev[n]
		}
		env := &Env{w: t.w, vc: t.vc, cur: st.heap, old: pre, vars: ev, ctx: cctx}
		var use map[string]bool
		if t.parent == nil && t.spec != nil && t.curCall > 0 {
			if ls, ok := t.spec.Use[t.curCall]; ok {
				use = map[string]bool{}
				for _, l := range ls {
					use[l] = true
				}
			}
		}
		if spec.Functional != "" && len(res) == 1 {
			// justified by registerFunctional's check: the result is a function of the arguments
			t.vc.declareSpecFun(t.w, spec.Functional)
			t.assumeL(st, g("(= "+res[0]+" ("+spec.Functional+" "+strings.Join(args, " ")+"))"), fmt.Sprintf("call%d.functional", t.curCallOrd))
		}
		for _, c := range spec.Ensures {
			if use != nil && !use[c.Label] {
				continue // relevance filter written in the caller's contract (dropping an assumption is sound)
			}
			f, _ := env.Eval(c.E)
			t.assumeL(st, g(f), fmt.Sprintf("call%d.%s", t.curCallOrd, c.Label))
		}
	}
	return res
}

func (t *Translator) modPreds2(spec *FuncSpec, env *Env) map[string]func(string) string {
	// same as modPreds but evaluated in the given (call-site) environment
	saved := t.w
	_ = saved
	return t.modPreds(spec, env)
}

// ---------- inlining ----------

func (t *Translator) depth() int {
	d := 0
	for p := t.parent; p != nil; p = p.parent {
		d++
	}
	return d
}

func (t *Translator) canInline(callee *ssa.Function) bool {
	if t.depth() >= 3 {
		return false
	}
	for p := t; p != nil; p = p.parent {
		if p.fn == callee {
			return false
		}
	}
	n := 0
	for _, b := range callee.Blocks {
		n += len(b.Instrs)
		for _, s := range b.Succs {
			if s.Dominates(b) {
				return false // loop
			}
		}
		for _, in := range b.Instrs {
			switch in.(type) {
			case *ssa.Defer, *ssa.Go, *ssa.MakeClosure:
				return false
			}
		}
	}
	return n <= 400 && len(callee.FreeVars) == 0
}

type retEdge struct {
	st  *State
	res []string
}

func (t *Translator) inline(st *State, in *ssa.Call, callee *ssa.Function, args []string) []string {
	sub := &Translator{w: t.w, fn: callee, vc: t.vc, spec: nil, short: t.short, parent: t,
		vals: map[ssa.Value]string{}, tuples: map[ssa.Value][]string{}, paths: map[ssa.Value]*Path{},
		origin: map[ssa.Value]*Path{}, constLen: map[ssa.Value]int{}, closures: map[ssa.Value]*ssa.Function{},
		params: map[string]binding{}, incoming: map[*ssa.BasicBlock][]edgeIn{}, safetyTags: t.safetyTags,
		rangeOfNext: map[*ssa.BasicBlock]*ssa.Range{}, entry: t.entry}
	sub.ctx = t.w.ctxFor(callee.Pkg.Pkg.Path(), "")
	for i, p := range callee.Params {
		sub.vals[p] = args[i]
		sub.params[p.Name()] = binding{term: args[i], typ: &SType{Go: p.Type()}}
	}
	sub.findLoops()
	order := sub.topoOrder()
	sub.incoming[callee.Blocks[0]] = []edgeIn{{nil, st.clone()}}
	for _, b := range order {
		ins := sub.incoming[b]
		if len(ins) == 0 {
			continue
		}
		cur := sub.join(b, ins)
		sub.block(b, cur)
	}
	for _, n := range sub.notesUp {
		_ = n
	}
	sig := callee.Signature
	if len(sub.rets) == 0 {
		// callee never returns normally
		t.assume(st, "false")
		return t.freshResults(st, sig, callee.Name())
	}
	var ins []edgeIn
	for _, r := range sub.rets {
		ins = append(ins, edgeIn{nil, r.st})
	}
	var res []string
	if len(sub.rets) == 1 {
		res = sub.rets[0].res
	} else {
		for i := 0; i < sig.Results().Len(); i++ {
			c := t.vc.freshConst("r!"+sanitize(callee.Name()), t.S().SortOf(sig.Results().At(i).Type()))
			for _, r := range sub.rets {
				t.vc.assume(r.st.pc, "(= "+c+" "+r.res[i]+")")
			}
			res = append(res, c)
		}
	}
	joined := t.join(in.Block(), ins)
	*st = *joined
	return res
}

// ---------- invoke (interface method calls) ----------

func (t *Translator) invoke(st *State, in *ssa.Call) {
	c := in.Common()
	recv := t.val(st, c.Value)
	t.safety(st, "nilderef", "(not (= (itag "+recv+") 0))", in.Pos(), "nil interface")
	var args []string
	for _, a := range c.Args {
		args = append(args, t.argTerm(st, a))
	}
	sig := c.Signature()
	if !t.w.isRepoInterface(c.Value.Type()) {
		full := c.Method.FullName()
		spec := t.w.Specs.Funcs[full]
		if spec == nil {
			// error.Error and friends: pure, arbitrary result
			t.vc.note("extern interface method without contract treated as pure: %s", full)
			res := t.freshResults(st, sig, c.Method.Name())
			for i, r := range res {
				t.assumeTyped(st, r, sig.Results().At(i).Type())
			}
			t.setResults(in, res)
			return
		}
		// build a pseudo-callee for the contract machinery
		res := t.applyIfaceSpec(st, spec, c, recv, args, in.Pos())
		t.setResults(in, res)
		return
	}
	it := c.Value.Type().Underlying().(*types.Interface)
	impls := t.w.implementersOf(it)
	// closed-world dispatch: one branch per implementation, each handled as a static call, then joined
	type branch struct {
		st  *State
		res []string
	}
	var branches []branch
	var guards []string
	for _, impl := range impls {
		f := t.w.Prog.LookupMethod(impl, c.Method.Pkg(), c.Method.Name())
		if f == nil {
			continue
		}
		guard := fmt.Sprintf("(= (itag %s) %d)", recv, t.S().Tag(impl))
		guards = append(guards, guard)
		var rv string
		switch impl.Underlying().(type) {
		case *types.Pointer, *types.Map:
			rv = "(iref " + recv + ")"
		default:
			_, unbox := t.vc.needBox(t.S().SortOf(impl))
			rv = "(" + unbox + " (iref " + recv + "))"
		}
		bs := st.clone()
		npc := t.vc.newPC("disp", st.pc)
		t.vc.assume(npc, "(and "+st.pc+" "+guard+")")
		bs.pc = npc
		bs.pcHasOb = false
		if _, isPtr := impl.Underlying().(*types.Pointer); isPtr {
			t.assumeTyped(bs, rv, impl)
		}
		full := append([]string{rv}, args...)
		r := t.staticCall(bs, in, f, full, nil)
		branches = append(branches, branch{bs, r})
	}
	if len(branches) == 0 {
		t.vc.note("no implementation found for %s", c.Method.FullName())
		res := t.freshResults(st, sig, c.Method.Name())
		for i, r := range res {
			t.assumeTyped(st, r, sig.Results().At(i).Type())
		}
		t.setResults(in, res)
		return
	}
	t.vc.note("closed-world dispatch on %s", types.TypeString(c.Value.Type(), nil))
	// closed world: the receiver's dynamic type is one of the known implementations
	t.assume(st, "(or "+strings.Join(guards, " ")+")")
	var ins []edgeIn
	for _, b := range branches {
		ins = append(ins, edgeIn{nil, b.st})
	}
	var res []string
	if len(branches) == 1 {
		res = branches[0].res
	} else {
		for i := 0; i < sig.Results().Len(); i++ {
			cst := t.vc.freshConst("r!"+sanitize(c.Method.Name()), t.S().SortOf(sig.Results().At(i).Type()))
			for _, b := range branches {
				t.vc.assume(b.st.pc, "(= "+cst+" "+b.res[i]+")")
			}
			res = append(res, cst)
		}
	}
	joined := t.join(in.Block(), ins)
	*st = *joined
	for i, r := range res {
		t.assumeTyped(st, r, sig.Results().At(i).Type())
	}
	t.setResults(in, res)
}

// applyIfaceSpec applies an extern contract keyed by an interface method.
func (t *Translator) applyIfaceSpec(st *State, spec *FuncSpec, c *ssa.CallCommon, recv string, args []string, pos token.Pos) []string {
	sig := c.Signature()
	spec.Used = true
	vars := map[string]binding{}
	full := append([]string{recv}, args...)
	for i, n := range spec.Params {
		if i >= len(full) {
			break
		}
		var ty types.Type
		if i == 0 {
			ty = c.Value.Type()
		} else {
			ty = sig.Params().At(i - 1).Type()
		}
		vars[n] = binding{term: full[i], typ: &SType{Go: ty}}
	}
	cctx := t.w.ctxFor(spec.PkgPath, spec.File)
	pre := st.heap.clone()
	env := &Env{w: t.w, vc: t.vc, cur: pre, old: pre, vars: vars, ctx: cctx}
	for _, cl := range spec.Requires {
		f, _ := env.Eval(cl.E)
		tags := cl.Tags
		if len(tags) == 0 {
			tags = t.safetyTags
		}
		t.oblige(st, "call.requires@"+c.Method.Name()+"."+cl.Label, "", tags, f, t.w.pos(pos), cl.Src)
	}
	ws := t.w.specWrites(spec)
	preds := t.modPreds(spec, env)
	t.havocWrites(st, ws, preds, pre)
	if !spec.Pure {
		nn := t.vc.freshConst("next", "Int")
		t.assume(st, "(>= "+nn+" "+pre.next+")")
		st.heap.next = nn
	}
	res := t.freshResults(st, sig, c.Method.Name())
	ev := map[string]binding{}
	for k, v := range vars {
		ev[k] = v
	}
	for i, r := range res {
		b := binding{term: r, typ: &SType{Go: sig.Results().At(i).Type()}}
		if len(res) == 1 {
			ev["res"] = b
		}
		ev[fmt.Sprintf("res%d", i)] = b
		if i < len(spec.Results) {
			ev[spec.Results[i]] = b
		}
		t.assumeTyped(st, r, sig.Results().At(i).Type())
	}
	env2 := &Env{w: t.w, vc: t.vc, cur: st.heap, old: pre, vars: ev, ctx: cctx}
	for _, cl := range spec.Ensures {
		f, _ := env2.Eval(cl.E)
		t.assume(st, f)
	}
	return res
}

// ---------- builtins ----------

func (t *Translator) builtin(st *State, in *ssa.Call, b *ssa.Builtin) {
	args := in.Call.Args
	switch b.Name() {
	case "len":
		x := t.val(st, args[0])
		switch u := args[0].Type().Underlying().(type) {
		case *types.Map:
			md, _ := t.w.mapArrs(u)
			ks := t.S().SortOf(u.Key())
			t.vc.needCard(ks)
			t.vals[in] = "(ite (= " + x + " 0) 0 (card!" + sanitize(ks) + " (select " + t.arrTerm(md, st.heap) + " " + x + ")))"
		case *types.Slice:
			t.vals[in] = slLen(t.S().SortOf(args[0].Type()), x)
		case *types.Basic:
			t.vc.needStrFuns()
			t.vals[in] = "(str!len " + x + ")"
		case *types.Array:
			t.vals[in] = fmt.Sprint(u.Len())
		case *types.Pointer:
			t.vals[in] = fmt.Sprint(u.Elem().Underlying().(*types.Array).Len())
		default:
			t.vals[in] = t.vc.freshConst("len", "Int")
		}
	case "cap":
		c := t.vc.freshConst("cap", "Int")
		if _, ok := args[0].Type().Underlying().(*types.Slice); ok {
			t.assume(st, "(>= "+c+" "+slLen(t.S().SortOf(args[0].Type()), t.val(st, args[0]))+")")
		}
		t.vals[in] = c
	case "append":
		t.appendCall(st, in)
	case "delete":
		m := t.val(st, args[0])
		k := t.val(st, args[1])
		md, _ := t.w.mapArrs(args[0].Type().Underlying().(*types.Map))
		d := t.arrTerm(md, st.heap)
		t.setArr(st, md, "(ite (= "+m+" 0) "+d+" (store "+d+" "+m+" (store (select "+d+" "+m+") "+k+" false)))")
	case "copy":
		t.vc.unsupportedf("builtin copy in %s", t.short)
		t.vals[in] = t.vc.freshConst("copied", "Int")
	case "print", "println":
	case "min", "max":
		x, y := t.val(st, args[0]), t.val(st, args[1])
		if b.Name() == "min" {
			t.vals[in] = "(ite (<= " + x + " " + y + ") " + x + " " + y + ")"
		} else {
			t.vals[in] = "(ite (>= " + x + " " + y + ") " + x + " " + y + ")"
		}
	case "ssa:wrapnilchk":
		t.vals[in] = t.val(st, args[0])
	case "ssa:deferstack":
		t.vals[in] = "0"
	case "recover":
		t.vals[in] = "(mk-iface 0 0)"
	default:
		t.vc.unsupportedf("builtin %s in %s", b.Name(), t.short)
		if in.Type() != nil {
			t.vals[in] = t.vc.freshConst("builtin", t.S().SortOf(in.Type()))
		}
	}
}

func (t *Translator) appendCall(st *State, in *ssa.Call) {
	args := in.Call.Args
	so := t.S().SortOf(in.Type())
	s := t.val(st, args[0])
	if _, isStr := args[1].Type().Underlying().(*types.Basic); isStr {
		t.vals[in] = t.vc.freshConst("appended", so)
		return
	}
	x := t.val(st, args[1])
	if n, ok := t.constLen[args[1]]; ok && n <= 8 {
		arr := slArr(so, s)
		ln := slLen(so, s)
		for i := 0; i < n; i++ {
			arr = fmt.Sprintf("(store %s (+ %s %d) (select %s %d))", arr, ln, i, slArr(so, x), i)
		}
		r := t.vc.freshConst("app", so)
		t.assume(st, "(= "+r+" "+slMk(so, arr, fmt.Sprintf("(+ %s %d)", ln, n), "false")+")")
		t.vals[in] = r
		return
	}
	// general concatenation: nil-ness is not tracked precisely (result nil iff both empty and s nil)
	es := t.S().slices[so]
	na := t.vc.freshConst("cat", "(Array Int "+es+")")
	q := fmt.Sprintf("i!c%d", t.vc.fresh())
	ls, lx := slLen(so, s), slLen(so, x)
	t.assume(st, "(forall (("+q+" Int)) (! (= (select "+na+" "+q+") (ite (< "+q+" "+ls+") (select "+slArr(so, s)+" "+q+") (select "+slArr(so, x)+" (- "+q+" "+ls+")))) :pattern ((select "+na+" "+q+"))))")
	// the same facts, triggered from the operands: an element of s or x is an element of the result (gives existential
	// witnesses such as "the i-th new element sits at len(s)+i")
	q2 := fmt.Sprintf("i!c%d", t.vc.fresh())
	t.assume(st, "(forall (("+q2+" Int)) (! (=> (and (<= 0 "+q2+") (< "+q2+" "+ls+")) (= (select "+na+" "+q2+") (select "+slArr(so, s)+" "+q2+"))) :pattern ((select "+slArr(so, s)+" "+q2+"))))")
	q3 := fmt.Sprintf("i!c%d", t.vc.fresh())
	t.assume(st, "(forall (("+q3+" Int)) (! (=> (<= 0 "+q3+") (= (select "+na+" (+ "+q3+" "+ls+")) (select "+slArr(so, x)+" "+q3+"))) :pattern ((select "+slArr(so, x)+" "+q3+"))))")
	r := t.vc.freshConst("app", so)
	t.assume(st, "(= "+r+" "+slMk(so, na, "(+ "+ls+" "+lx+")", "(and "+slNil(so, s)+" (= "+lx+" 0))")+")")
	t.vals[in] = r
}

// intrinsic: a few library functions modelled directly.
func (t *Translator) intrinsic(st *State, in *ssa.Call, callee *ssa.Function, args []string) ([]string, bool) {
	switch callee.String() {
	case "reflect.DeepEqual":
		// modelled for two maps with scalar values (the only use in the repository)
		a, ok1 := in.Call.Args[0].(*ssa.MakeInterface)
		b, ok2 := in.Call.Args[1].(*ssa.MakeInterface)
		if ok1 && ok2 {
			ma, isMa := a.X.Type().Underlying().(*types.Map)
			mb, isMb := b.X.Type().Underlying().(*types.Map)
			if isMa && isMb && types.Identical(ma, mb) {
				switch ma.Elem().Underlying().(type) {
				case *types.Basic:
					md, mv := t.w.mapArrs(ma)
					x, y := t.val(st, a.X), t.val(st, b.X)
					ks := t.S().SortOf(ma.Key())
					d, v := t.arrTerm(md, st.heap), t.arrTerm(mv, st.heap)
					q := fmt.Sprintf("k!de%d", t.vc.fresh())
					same := "(and (= (select " + d + " " + x + ") (select " + d + " " + y + ")) (forall ((" + q + " " + ks + ")) (! (=> (select (select " + d + " " + x + ") " + q + ") (= (select (select " + v + " " + x + ") " + q + ") (select (select " + v + " " + y + ") " + q + "))) :pattern ((select (select " + v + " " + x + ") " + q + ")) :pattern ((select (select " + v + " " + y + ") " + q + ")))))"
					r := t.vc.freshConst("deepeq", "Bool")
					t.assume(st, "(= "+r+" (ite (or (= "+x+" 0) (= "+y+" 0)) (= "+x+" "+y+") "+same+"))")
					return []string{r}, true
				}
			}
		}
		return nil, false
	case "errors.New", "fmt.Errorf":
		r := t.allocRef(st)
		tag := t.S().Tag(types.NewPointer(types.Universe.Lookup("error").Type()))
		return []string{fmt.Sprintf("(mk-iface %d %s)", tag, r)}, true
	}
	return nil, false
}
