package main

import "fmt"

// LemmaObligations builds the obligations of the lemmas tagged with property id.
// A lemma is a body-less procedure: its requires are assumed, its ensures must follow (pure SMT over one symbolic heap).
func (w *World) LemmaObligations(id string) (obs []*Obligation, err error) {
	defer func() {
		if r := recover(); r != nil {
			err = fmt.Errorf("%v", r)
		}
	}()
	for _, lm := range w.Specs.Lemmas {
		if id != "" && !hasTag(lm.Tags, id) {
			continue
		}
		name := "lemma." + lm.Name
		vc := NewFuncVC(w, name)
		for _, r := range lm.Reveal {
			vc.reveal[r] = true
		}
		root := vc.newPC("entry")
		vc.declare("next@0", "Int")
		heap := &HeapState{vers: map[string]string{}, next: "next@0"}
		ctx := w.ctxFor(lm.PkgPath, lm.File)
		vars := map[string]binding{}
		for _, p := range lm.Params {
			ty := w.resolveType(p.Type, ctx)
			n := "l!" + sanitize(p.Name)
			vc.declare(n, ty.Sort(w.S))
			vars[p.Name] = binding{term: n, typ: ty}
		}
		env := &Env{w: w, vc: vc, cur: heap, old: heap, vars: vars, ctx: ctx}
		vc.assume(root, "(>= next@0 1)")
		for _, c := range lm.Requires {
			f, _ := env.Eval(c.E)
			vc.assume(root, f)
		}
		pc := root
		for _, c := range lm.Ensures {
			f, _ := env.Eval(c.E)
			n := name
			if c.Label != "" {
				n += "." + c.Label
			}
			tags := c.Tags
			if len(tags) == 0 {
				tags = lm.Tags
			}
			obs = append(obs, &Obligation{Name: n, Kind: "lemma", Tags: tags, PC: pc, Goal: f, Pos: lm.File, Src: c.Src, Func: name, vc: vc})
			npc := vc.newPC("l", pc)
			vc.assume(npc, pc)
			vc.assume(npc, f)
			pc = npc
		}
		vc.obs = obs
	}
	// monotonicity of opaque predicates in the allocation counter (used as an axiom wherever they stay opaque)
	var names []string
	for n := range w.Specs.Funs {
		names = append(names, n)
	}
	sortStrings(names)
	for _, n := range names {
		fd := w.Specs.Funs[n]
		if !fd.Opaque || fd.Body == nil {
			continue
		}
		fctx := w.ctxFor(fd.PkgPath, fd.File)
		rs := w.opaqueInfo(fd, fctx)
		if !rs.next {
			continue
		}
		name := "lemma.mono." + fd.Name
		vc := NewFuncVC(w, name)
		vc.revealAll = true
		root := vc.newPC("entry")
		vc.declare("n!1", "Int")
		vc.declare("n!2", "Int")
		vars := map[string]binding{}
		for _, p := range fd.Params {
			ty := w.resolveType(p.Type, fctx)
			c := "l!" + sanitize(p.Name)
			vc.declare(c, ty.Sort(w.S))
			vars[p.Name] = binding{term: c, typ: ty}
		}
		h1 := &HeapState{vers: map[string]string{}, next: "n!1"}
		h2 := &HeapState{vers: map[string]string{}, next: "n!2"}
		b1, _ := (&Env{w: w, vc: vc, cur: h1, old: h1, vars: vars, ctx: fctx}).Eval(fd.Body)
		b2, _ := (&Env{w: w, vc: vc, cur: h2, old: h2, vars: vars, ctx: fctx}).Eval(fd.Body)
		vc.assume(root, "(<= n!1 n!2)")
		vc.assume(root, b1)
		ob := &Obligation{Name: name, Kind: "lemma", Tags: []string{id}, PC: root, Goal: b2, Pos: fd.File, Src: "monotone in the allocation counter", Func: name, vc: vc}
		obs = append(obs, ob)
	}
	return obs, nil
}
