package main

import "fmt"

// LemmaObligations builds the obligations of the lemmas tagged with property id.
// A lemma is a body-less procedure: its requires are assumed, its ensures must follow (pure SMT over one symbolic heap).
func (w *World) LemmaObligations(id string) (obs []*Obligation, err error) {
	defer func() {
		if r := recover(); r != nil {
			err = fmt.Errorf("%v", r)
		}
	}()
	for _, lm := range w.Specs.Lemmas {
		if id != "" && !hasTag(lm.Tags, id) {
			continue
		}
		name := "lemma." + lm.Name
		vc := NewFuncVC(w, name)
		root := vc.newPC("entry")
		vc.declare("next@0", "Int")
		heap := &HeapState{vers: map[string]string{}, next: "next@0"}
		ctx := w.ctxFor(lm.PkgPath, lm.File)
		vars := map[string]binding{}
		for _, p := range lm.Params {
			ty := w.resolveType(p.Type, ctx)
			n := "l!" + sanitize(p.Name)
			vc.declare(n, ty.Sort(w.S))
			vars[p.Name] = binding{n, ty}
		}
		env := &Env{w: w, vc: vc, cur: heap, old: heap, vars: vars, ctx: ctx}
		vc.assume(root, "(>= next@0 1)")
		for _, c := range lm.Requires {
			f, _ := env.Eval(c.E)
			vc.assume(root, f)
		}
		pc := root
		for _, c := range lm.Ensures {
			f, _ := env.Eval(c.E)
			n := name
			if c.Label != "" {
				n += "." + c.Label
			}
			tags := c.Tags
			if len(tags) == 0 {
				tags = lm.Tags
			}
			obs = append(obs, &Obligation{Name: n, Kind: "lemma", Tags: tags, PC: pc, Goal: f, Pos: lm.File, Src: c.Src, Func: name, vc: vc})
			npc := vc.newPC("l", pc)
			vc.assume(npc, pc)
			vc.assume(npc, f)
			pc = npc
		}
		vc.obs = obs
	}
	return obs, nil
}
