package main

import (
	"hash/fnv"
	"fmt"
	"go/types"
	"sort"
	"strings"
)

// Sorts manages the mapping from Go types to SMT sorts and the declarations they need.
type Sorts struct {
	w        *World
	structs  map[string]*StructInfo // by sort name
	byKey    map[string]*StructInfo // by structKey
	slices   map[string]string      // slice sort name -> elem sort
	strLits  map[string]string
	strOrder []string
	tags     map[string]int
	tagTypes []types.Type
	names    map[string]string // mangled short name -> key (collision detection)
	boxes    map[string]bool   // sorts that need box/unbox
	valofN   map[string]int    // struct sort -> number of fields when a valof() term was first built
}

// noteValof records the field count used by a valof() term; the count must not grow afterwards
// (a later-discovered field would make earlier terms claim the zero value for it).
func (s *Sorts) noteValof(si *StructInfo, n int) {
	if s.valofN == nil {
		s.valofN = map[string]int{}
	}
	if old, ok := s.valofN[si.Sort]; !ok || n > old {
		if ok && n > old {
			panic("valof(" + si.Sort + "): struct gained a field after a valof term was built")
		}
		s.valofN[si.Sort] = n
	}
}

type StructInfo struct {
	Key    string
	Sort   string
	T      *types.Struct
	Named  types.Type
	Fields map[int]bool // used field indices
}

func NewSorts(w *World) *Sorts {
	return &Sorts{w: w, structs: map[string]*StructInfo{}, byKey: map[string]*StructInfo{},
		slices: map[string]string{}, strLits: map[string]string{}, tags: map[string]int{},
		names: map[string]string{}, boxes: map[string]bool{}}
}

func sanitize(s string) string {
	var b strings.Builder
	for _, r := range s {
		switch {
		case r >= 'a' && r <= 'z', r >= 'A' && r <= 'Z', r >= '0' && r <= '9', r == '_':
			b.WriteRune(r)
		case r == '.':
			b.WriteRune('_')
		case r == ' ' || r == '(' || r == ')':
			b.WriteRune('$')
		default:
			b.WriteRune('$')
		}
	}
	return b.String()
}

func (s *Sorts) shortName(key string) string {
	// key is like "github.com/x/y/pkg.Type" -> "pkg_Type", disambiguated
	base := key
	if i := strings.LastIndex(base, "/"); i >= 0 {
		base = base[i+1:]
	}
	base = sanitize(base)
	if len(base) > 60 {
		base = base[:60]
	}
	cand := base
	for n := 2; ; n++ {
		if k, ok := s.names[cand]; !ok || k == key {
			s.names[cand] = key
			return cand
		}
		cand = fmt.Sprintf("%s%d", base, n)
	}
}

func (s *Sorts) structInfo(t types.Type) *StructInfo {
	t = types.Unalias(t)
	key := structKey(t)
	if si, ok := s.byKey[key]; ok {
		return si
	}
	st, ok := t.Underlying().(*types.Struct)
	if !ok {
		panic("structInfo on non-struct " + t.String())
	}
	si := &StructInfo{Key: key, T: st, Named: t, Fields: map[int]bool{}}
	si.Sort = "V_" + s.shortName(key)
	for i := range s.w.UsedFields[key] {
		si.Fields[i] = true
	}
	s.byKey[key] = si
	s.structs[si.Sort] = si
	return si
}

func (s *Sorts) UseField(t types.Type, idx int) {
	si := s.structInfo(t)
	si.Fields[idx] = true
}

// SortOf returns the SMT sort for values of Go type t.
func (s *Sorts) SortOf(t types.Type) string {
	t = types.Unalias(t)
	switch u := t.Underlying().(type) {
	case *types.Basic:
		switch {
		case u.Info()&types.IsBoolean != 0:
			return "Bool"
		case u.Info()&types.IsInteger != 0:
			return "Int"
		case u.Info()&types.IsString != 0:
			return "Str"
		case u.Info()&types.IsFloat != 0:
			return "Real"
		case u.Kind() == types.UnsafePointer, u.Kind() == types.UntypedNil:
			return "Int"
		}
		return "Int"
	case *types.Pointer, *types.Map, *types.Chan, *types.Signature:
		return "Int"
	case *types.Slice:
		es := s.SortOf(u.Elem())
		return s.sliceSort(es)
	case *types.Array:
		return "(Array Int " + s.SortOf(u.Elem()) + ")"
	case *types.Struct:
		return s.structInfo(t).Sort
	case *types.Interface:
		return "Iface"
	case *types.Tuple:
		return "Tuple"
	case *types.TypeParam:
		return "Int"
	}
	return "Int"
}

func (s *Sorts) sliceSort(es string) string {
	name := "Slice_" + sanitize(es)
	s.slices[name] = es
	return name
}

func (s *Sorts) StrLit(v string) string {
	if v == "" {
		return "0"
	}
	if c, ok := s.strLits[v]; ok {
		return c
	}
	// the code of a literal is a function of its text (not of the order literals are met in), so that queries - and
	// with them the proof cache - are the same on every run; distinct literals must get distinct codes
	c := fmt.Sprint(stableCode(v))
	for o, oc := range s.strLits {
		if oc == c {
			panic(fmt.Sprintf("string literal code collision: %q and %q", o, v))
		}
	}
	s.strLits[v] = c
	s.strOrder = append(s.strOrder, v)
	return c
}

func stableCode(v string) uint64 {
	h := fnv.New64a()
	h.Write([]byte(v))
	return 1 + h.Sum64()%999999999989
}

// StrLitTable lists the literal pool (for readable reports).
func (s *Sorts) StrLitTable() map[string]string {
	out := map[string]string{"0": ""}
	for k, v := range s.strLits {
		out[v] = k
	}
	return out
}

func isSimpleIdent(v string) bool {
	if len(v) == 0 || len(v) > 24 {
		return false
	}
	for _, r := range v {
		if !(r >= 'a' && r <= 'z' || r >= 'A' && r <= 'Z' || r >= '0' && r <= '9' || r == '_') {
			return false
		}
	}
	return true
}

func (s *Sorts) Tag(t types.Type) int {
	k := types.Unalias(t).String()
	if v, ok := s.tags[k]; ok {
		return v
	}
	v := int(1 + stableCode(k)%999983)
	for o, ov := range s.tags {
		if ov == v {
			panic("interface tag collision: " + o + " and " + k)
		}
	}
	s.tags[k] = v
	s.tagTypes = append(s.tagTypes, t)
	return v
}

// Zero returns the zero value term of Go type t.
func (s *Sorts) Zero(t types.Type) string {
	return s.ZeroOfSort(s.SortOf(t))
}

func (s *Sorts) ZeroOfSort(so string) string {
	switch so {
	case "Bool":
		return "false"
	case "Int":
		return "0"
	case "Real":
		return "0.0"
	case "Str":
		return "0"
	case "Iface":
		return "(mk-iface 0 0)"
	}
	if strings.HasPrefix(so, "Slice_") {
		return "zero!" + so
	}
	if strings.HasPrefix(so, "V_") {
		return "zero!" + so
	}
	if strings.HasPrefix(so, "(Array ") {
		_, rng := splitArraySort(so)
		return "((as const " + so + ") " + s.finalZero(rng) + ")"
	}
	panic("zero of sort " + so)
}

// splitArraySort splits "(Array D R)" into D and R.
func splitArraySort(so string) (string, string) {
	body := strings.TrimSuffix(strings.TrimPrefix(so, "(Array "), ")")
	depth := 0
	for i, c := range body {
		switch c {
		case '(':
			depth++
		case ')':
			depth--
		case ' ':
			if depth == 0 {
				return body[:i], body[i+1:]
			}
		}
	}
	panic("bad array sort " + so)
}

// FieldSel returns the selector function name for field idx of struct sort.
func (s *Sorts) fieldName(si *StructInfo, idx int) string {
	return si.Sort + "." + sanitize(si.T.Field(idx).Name())
}

// GetField builds a term selecting a field from a struct value.
func (s *Sorts) GetField(t types.Type, idx int, v string) string {
	si := s.structInfo(t)
	si.Fields[idx] = true
	return "(" + s.fieldName(si, idx) + " " + v + ")"
}

// SetField builds a term updating a field of a struct value.
func (s *Sorts) SetField(t types.Type, idx int, v, nv string) string {
	si := s.structInfo(t)
	si.Fields[idx] = true
	return "(upd!" + s.fieldName(si, idx) + " " + v + " " + nv + ")"
}

// finalZero builds a closed value term for the zero value of a sort (cvc5 needs values inside "as const").
func (s *Sorts) finalZero(so string) string {
	switch so {
	case "Bool":
		return "false"
	case "Int", "Str":
		return "0"
	case "Real":
		return "0.0"
	case "Iface":
		return "(mk-iface 0 0)"
	}
	if strings.HasPrefix(so, "Slice_") {
		es := s.slices[so]
		return "(mk!" + so + " ((as const (Array Int " + es + ")) " + s.finalZero(es) + ") 0 true)"
	}
	if strings.HasPrefix(so, "V_") {
		si := s.structs[so]
		idxs := sortedKeys(si.Fields)
		if len(idxs) == 0 {
			return "mk!" + so
		}
		t := "(mk!" + so
		for _, i := range idxs {
			t += " " + s.finalZero(s.SortOf(si.T.Field(i).Type()))
		}
		return t + ")"
	}
	if strings.HasPrefix(so, "(Array ") {
		_, rng := splitArraySort(so)
		return "((as const " + so + ") " + s.finalZero(rng) + ")"
	}
	panic("finalZero of sort " + so)
}

// Preamble emits the sort/datatype declarations needed by the given query text (transitively).
func (s *Sorts) Preamble(text string) string {
	var b strings.Builder
	b.WriteString("(define-sort Str () Int)\n")
	b.WriteString("(declare-datatypes ((Iface 0)) (((mk-iface (itag Int) (iref Int)))))\n")
	// Make sure field sorts are registered (may register new structs/slices): iterate to fixpoint.
	for {
		n := len(s.structs) + len(s.slices)
		var keys []string
		for k := range s.structs {
			keys = append(keys, k)
		}
		for _, k := range keys {
			si := s.structs[k]
			for i := range si.Fields {
				s.SortOf(si.T.Field(i).Type())
			}
		}
		if len(s.structs)+len(s.slices) == n {
			break
		}
	}
	for so, n := range s.valofN {
		if si := s.structs[so]; si != nil && len(si.Fields) != n {
			panic("valof(" + so + "): struct gained a field after a valof term was built")
		}
	}
	type node struct {
		name string
		deps []string
		decl func() string
	}
	nodes := map[string]*node{}
	depsOfSort := func(so string) []string {
		var out []string
		for _, tok := range strings.FieldsFunc(so, func(r rune) bool { return r == ' ' || r == '(' || r == ')' }) {
			if strings.HasPrefix(tok, "V_") || strings.HasPrefix(tok, "Slice_") {
				out = append(out, tok)
			}
		}
		return out
	}
	for name, es := range s.slices {
		name, es := name, es
		nodes[name] = &node{name: name, deps: depsOfSort(es), decl: func() string {
			return fmt.Sprintf("(declare-datatypes ((%s 0)) (((mk!%s (sl-arr!%s (Array Int %s)) (sl-len!%s Int) (sl-nil!%s Bool)))))\n"+
				"(define-fun zero!%s () %s %s)\n",
				name, name, name, es, name, name, name, name, s.finalZero(name))
		}}
	}
	for name, si := range s.structs {
		name, si := name, si
		var deps []string
		idxs := sortedKeys(si.Fields)
		for _, i := range idxs {
			deps = append(deps, depsOfSort(s.SortOf(si.T.Field(i).Type()))...)
		}
		nodes[name] = &node{name: name, deps: deps, decl: func() string {
			var sb strings.Builder
			if len(idxs) == 0 {
				fmt.Fprintf(&sb, "(declare-datatypes ((%s 0)) (((mk!%s))))\n", name, name)
				fmt.Fprintf(&sb, "(define-fun zero!%s () %s mk!%s)\n", name, name, name)
				return sb.String()
			}
			fmt.Fprintf(&sb, "(declare-datatypes ((%s 0)) (((mk!%s", name, name)
			for _, i := range idxs {
				fmt.Fprintf(&sb, " (%s %s)", s.fieldName(si, i), s.SortOf(si.T.Field(i).Type()))
			}
			sb.WriteString("))))\n")
			fmt.Fprintf(&sb, "(define-fun zero!%s () %s %s)\n", name, name, s.finalZero(name))
			for _, i := range idxs {
				fmt.Fprintf(&sb, "(define-fun upd!%s ((s %s) (v %s)) %s (mk!%s", s.fieldName(si, i), name,
					s.SortOf(si.T.Field(i).Type()), name, name)
				for _, j := range idxs {
					if j == i {
						sb.WriteString(" v")
					} else {
						fmt.Fprintf(&sb, " (%s s)", s.fieldName(si, j))
					}
				}
				sb.WriteString("))\n")
			}
			return sb.String()
		}}
	}
	// which sorts does the query mention?
	needed := map[string]bool{}
	for sym := range usedSymbols(text) {
		for _, pre := range []string{"mk!", "zero!", "sl-arr!", "sl-len!", "sl-nil!", "upd!"} {
			sym = strings.TrimPrefix(sym, pre)
		}
		if strings.HasPrefix(sym, "V_") {
			if i := strings.Index(sym, "."); i > 0 {
				sym = sym[:i]
			}
		}
		if _, ok := nodes[sym]; ok {
			needed[sym] = true
		}
	}
	state := map[string]int{}
	var visit func(n string)
	visit = func(n string) {
		nd := nodes[n]
		if nd == nil || state[n] == 2 {
			return
		}
		if state[n] == 1 {
			panic("recursive datatype through " + n)
		}
		state[n] = 1
		for _, d := range nd.deps {
			visit(d)
		}
		state[n] = 2
		b.WriteString(nd.decl())
	}
	// (the literal pool is not printed here: it grows as functions are translated, and the query text must not depend on that)
	var names []string
	for n := range needed {
		names = append(names, n)
	}
	sort.Strings(names)
	for _, n := range names {
		visit(n)
	}
	return b.String()
}

func sortedKeys(m map[int]bool) []int {
	var out []int
	for k := range m {
		out = append(out, k)
	}
	sort.Ints(out)
	return out
}

// Slice helpers
func slArr(so, v string) string { return "(sl-arr!" + so + " " + v + ")" }
func slLen(so, v string) string { return "(sl-len!" + so + " " + v + ")" }
func slNil(so, v string) string { return "(sl-nil!" + so + " " + v + ")" }
func slMk(so, arr, ln, isnil string) string {
	return "(mk!" + so + " " + arr + " " + ln + " " + isnil + ")"
}
