package main

import (
	"fmt"
	"go/token"
	"go/types"
	"os"
	"sort"
	"strings"

	"golang.org/x/tools/go/packages"
	"golang.org/x/tools/go/ssa"
	"golang.org/x/tools/go/ssa/ssautil"
)

const repoModule = "github.com/np-guard/netpol-analyzer"

// World holds everything loaded from /repo for one run.
type World struct {
	RepoDir  string
	Fset     *token.FileSet
	Pkgs     []*packages.Package
	AllPkgs  map[string]*packages.Package // by path, transitive
	Prog     *ssa.Program
	SSAPkgs  map[string]*ssa.Package
	Funcs    map[string]*ssa.Function // by full name (fn.String())
	FuncList []*ssa.Function          // deterministic order

	typeKeys map[string]string // short type name -> full type string (heap array naming)

	// used struct fields (struct type key -> field index set)
	UsedFields map[string]map[int]bool

	Specs *SpecDB
	S     *Sorts
	heap  *HeapReg

	writeSets map[*ssa.Function]*WriteSet
	specOf    map[*ssa.Function]*FuncSpec
	impls     map[string][]types.Type
	namedTypes []types.Type
	Orphaned  []string
	opaqueRS       map[string]*readSet
	globalFacts    map[string][]string
	WrittenGlobals map[string]bool
}

func isRepoPkg(path string) bool {
	return strings.HasPrefix(path, repoModule)
}

func LoadWorld(repoDir string, patterns []string) (*World, error) {
	cfg := &packages.Config{
		Mode:       packages.LoadAllSyntax,
		Dir:        repoDir,
		BuildFlags: []string{"-tags=verif"},
		Env:        append(os.Environ(), "GOFLAGS=-mod=mod", "GOPROXY=off", "GOSUMDB=off", "GOTOOLCHAIN=local"),
	}
	pkgs, err := packages.Load(cfg, patterns...)
	if err != nil {
		return nil, err
	}
	nerr := 0
	packages.Visit(pkgs, nil, func(p *packages.Package) {
		if isRepoPkg(p.PkgPath) {
			for _, e := range p.Errors {
				fmt.Fprintf(os.Stderr, "load error: %s: %v\n", p.PkgPath, e)
				nerr++
			}
		}
	})
	if nerr > 0 {
		return nil, fmt.Errorf("%d load errors in repository packages", nerr)
	}
	w := &World{RepoDir: repoDir, Pkgs: pkgs, AllPkgs: map[string]*packages.Package{},
		SSAPkgs: map[string]*ssa.Package{}, Funcs: map[string]*ssa.Function{},
		UsedFields: map[string]map[int]bool{}, heap: &HeapReg{arrs: map[string]*ArrInfo{}}}
	w.S = NewSorts(w)
	packages.Visit(pkgs, nil, func(p *packages.Package) { w.AllPkgs[p.PkgPath] = p })
	buildStructCanon(w.AllPkgs)
	if len(pkgs) > 0 {
		w.Fset = pkgs[0].Fset
	}
	// Build SSA only for repository packages (deps: types only).
	var repoPkgs []*packages.Package
	for _, p := range w.AllPkgs {
		if isRepoPkg(p.PkgPath) {
			repoPkgs = append(repoPkgs, p)
		}
	}
	sort.Slice(repoPkgs, func(i, j int) bool { return repoPkgs[i].PkgPath < repoPkgs[j].PkgPath })
	prog, spkgs := ssautil.Packages(repoPkgs, ssa.NaiveForm|ssa.GlobalDebug)
	w.Prog = prog
	for i, sp := range spkgs {
		if sp == nil {
			continue
		}
		sp.Build()
		w.SSAPkgs[repoPkgs[i].PkgPath] = sp
	}
	// collect functions
	seen := map[*ssa.Function]bool{}
	var add func(f *ssa.Function)
	add = func(f *ssa.Function) {
		if f == nil || seen[f] || f.Blocks == nil {
			return
		}
		if f.Pkg == nil || !isRepoPkg(f.Pkg.Pkg.Path()) {
			return
		}
		if f.Synthetic != "" && !strings.HasPrefix(f.Synthetic, "package initializer") {
			// wrappers, bound method thunks: skip
			if f.Parent() == nil {
				return
			}
		}
		seen[f] = true
		w.Funcs[f.String()] = f
		w.FuncList = append(w.FuncList, f)
		for _, af := range f.AnonFuncs {
			add(af)
		}
	}
	for _, sp := range w.SSAPkgs {
		for _, m := range sp.Members {
			switch m := m.(type) {
			case *ssa.Function:
				add(m)
			case *ssa.Type:
				for _, t := range []types.Type{m.Type(), types.NewPointer(m.Type())} {
					ms := prog.MethodSets.MethodSet(t)
					for i := 0; i < ms.Len(); i++ {
						add(prog.MethodValue(ms.At(i)))
					}
				}
			}
		}
	}
	sort.Slice(w.FuncList, func(i, j int) bool { return w.FuncList[i].String() < w.FuncList[j].String() })
	// pre-pass: used fields
	for _, f := range w.FuncList {
		for _, b := range f.Blocks {
			for _, in := range b.Instrs {
				switch in := in.(type) {
				case *ssa.FieldAddr:
					w.useField(in.X.Type().Underlying().(*types.Pointer).Elem(), in.Field)
				case *ssa.Field:
					w.useField(in.X.Type(), in.Field)
				}
			}
		}
	}
	return w, nil
}

// structCanon maps an underlying struct (shared by "type A B" declarations) to one canonical named type,
// so that a pointer conversion between such types keeps addressing the same heap cells.
var structCanon = map[*types.Struct]string{}

func buildStructCanon(pkgs map[string]*packages.Package) {
	for _, p := range pkgs {
		if p.Types == nil {
			continue
		}
		sc := p.Types.Scope()
		for _, n := range sc.Names() {
			tn, ok := sc.Lookup(n).(*types.TypeName)
			if !ok || tn.IsAlias() {
				continue
			}
			st, ok := tn.Type().Underlying().(*types.Struct)
			if !ok {
				continue
			}
			if nt, isNamed := tn.Type().(*types.Named); isNamed && nt.TypeParams().Len() > 0 {
				continue
			}
			s := tn.Type().String()
			if old, seen := structCanon[st]; !seen || s < old {
				structCanon[st] = s
			}
		}
	}
}

func structKey(t types.Type) string {
	if n, ok := t.(*types.Named); ok {
		if st, isStruct := n.Underlying().(*types.Struct); isStruct {
			if c, ok := structCanon[st]; ok {
				return c
			}
		}
		return n.String()
	}
	if a, ok := t.(*types.Alias); ok {
		return structKey(types.Unalias(a))
	}
	return t.String()
}

func (w *World) useField(t types.Type, idx int) {
	k := structKey(t)
	m := w.UsedFields[k]
	if m == nil {
		m = map[int]bool{}
		w.UsedFields[k] = m
	}
	m[idx] = true
}

func (w *World) pos(p token.Pos) string {
	if !p.IsValid() {
		return "?"
	}
	ps := w.Fset.Position(p)
	f := ps.Filename
	if strings.HasPrefix(f, w.RepoDir+"/") {
		f = f[len(w.RepoDir)+1:]
	}
	return fmt.Sprintf("%s:%d", f, ps.Line)
}

// shortFuncName: "common.(*ConnectionSet).Union"
func shortFuncName(f *ssa.Function) string {
	s := f.String()
	s = strings.ReplaceAll(s, repoModule+"/pkg/netpol/eval/internal/", "")
	s = strings.ReplaceAll(s, repoModule+"/pkg/netpol/connlist/internal/", "")
	s = strings.ReplaceAll(s, repoModule+"/pkg/netpol/internal/", "")
	s = strings.ReplaceAll(s, repoModule+"/pkg/netpol/", "")
	s = strings.ReplaceAll(s, repoModule+"/pkg/manifests/", "")
	s = strings.ReplaceAll(s, repoModule+"/pkg/internal/", "")
	s = strings.ReplaceAll(s, repoModule+"/pkg/", "")
	s = strings.ReplaceAll(s, repoModule+"/", "")
	return s
}
