package ingressanalyzer

// Replay of known finding D4 (property C10) on the real code. Injected with `go test -overlay`; never written to /repo.
// Ingress backend `number: 8080` designates the service port whose *port* is 8080 (-> targetPort 9090);
// the code returns the first service port whose *targetPort* is 8080.

import (
	"testing"

	corev1 "k8s.io/api/core/v1"
	"k8s.io/apimachinery/pkg/util/intstr"
)

func TestKF_D4(t *testing.T) {
	svcPorts := []corev1.ServicePort{
		{Name: "a", Port: 80, TargetPort: intstr.FromInt32(8080)},
		{Name: "b", Port: 8080, TargetPort: intstr.FromInt32(9090)},
	}
	got := getPeerAccessPort(svcPorts, intstr.IntOrString{IntVal: 8080})
	if len(got) != 1 || got[0].IntVal != 9090 {
		t.Fatalf("backend number 8080 designates service port b (8080 -> 9090): want [9090], got %v", got)
	}
}
