(set-logic ALL)
(define-sort Str () Int)
(declare-datatypes ((Iface 0)) (((mk-iface (itag Int) (iref Int)))))
; str 1 = ", line: %d"
; str 2 = "no document ID is available for this error"
; str 3 = ", document: %d%s"
; str 4 = "in file: %s%s"
; str 5 = "err : %s %s"
; str 6 = "%s: %v"
; str 7 = "failed conversion from resource.Info to unstructured.Unstructured"
; str 8 = "Pod"
; str 9 = "Deployment"
; str 10 = "DaemonSet"
; str 11 = "ReplicaSet"
; str 12 = "StatefulSet"
; str 13 = "ReplicationController"
; str 14 = "Job"
; str 15 = "CronJob"
; str 16 = "Namespace"
; str 17 = "NetworkPolicy"
; str 18 = "AdminNetworkPolicy"
; str 19 = "BaselineAdminNetworkPolicy"
; str 20 = "Service"
; str 21 = "Route"
; str 22 = "Ingress"
; str 23 = "default"
; str 24 = "127.0.0.1"
; str 25 = " , "
; str 26 = "kind: "
; str 27 = "name: "
; str 28 = "namespace: "
; str 29 = "error for resource"
; str 30 = " with "
; str 31 = "%s:  %w"
; str 32 = "in file: %s, skipping object with type: %s"
; str 33 = "TCP"
; str 34 = "UDP"
; str 35 = "SCTP"
; str 36 = "/"
; str 37 = "txt"
; str 38 = "csv"
; str 39 = "md"
; str 40 = "dot"
; str 41 = "a"
; str 42 = "b"
; str 43 = "c"
; str 44 = "d"
; str 45 = "e"
; str 46 = "f"
; str 47 = "g"
; str 48 = "h"
; str 49 = "np"
; str 50 = "lp"
; str 51 = "pp"
; str 52 = "serve-80-tcp"
; str 53 = "png"
; str 54 = "svg"
; str 55 = "json"
(declare-fun str!cat (Str Str) Str)
(declare-fun str!len (Str) Int)
(declare-fun str!lt (Str Str) Bool)
(declare-fun box!Str (Str) Int)
(declare-fun unbox!Str (Int) Str)
(declare-const pc!entry!1 Bool)
(declare-const next@0 Int)
(declare-const p!info Int)
(declare-const p!l Iface)
(declare-const H!logger_DefaultLogger!l@0 (Array Int Int))
(declare-const H!resource_Info!Object@0 (Array Int Iface))
(declare-const pc!pre!2 Bool)
(declare-const new!3 Int)
(declare-const pc!s!4 Bool)
(declare-const next!5 Int)
(declare-const H!parser_K8sObject!Kind@0 (Array Int Str))
(declare-const H!parser_K8sObject!Kind@6 (Array Int Str))
(declare-const H!parser_K8sObject!Namespace@0 (Array Int Int))
(declare-const H!parser_K8sObject!Namespace@7 (Array Int Int))
(declare-const H!parser_K8sObject!NetworkPolicy@0 (Array Int Int))
(declare-const H!parser_K8sObject!NetworkPolicy@8 (Array Int Int))
(declare-const H!parser_K8sObject!AdminNetworkPolicy@0 (Array Int Int))
(declare-const H!parser_K8sObject!AdminNetworkPolicy@9 (Array Int Int))
(declare-const H!parser_K8sObject!BaselineAdminNetworkPolicy@0 (Array Int Int))
(declare-const H!parser_K8sObject!BaselineAdminNetworkPolicy@10 (Array Int Int))
(declare-const H!parser_K8sObject!Pod@0 (Array Int Int))
(declare-const H!parser_K8sObject!Pod@11 (Array Int Int))
(declare-const H!parser_K8sObject!Service@0 (Array Int Int))
(declare-const H!parser_K8sObject!Service@12 (Array Int Int))
(declare-const H!parser_K8sObject!Route@0 (Array Int Int))
(declare-const H!parser_K8sObject!Route@13 (Array Int Int))
(declare-const H!parser_K8sObject!Ingress@0 (Array Int Int))
(declare-const H!parser_K8sObject!Ingress@14 (Array Int Int))
(declare-const H!parser_K8sObject!ReplicaSet@0 (Array Int Int))
(declare-const H!parser_K8sObject!ReplicaSet@15 (Array Int Int))
(declare-const H!parser_K8sObject!Deployment@0 (Array Int Int))
(declare-const H!parser_K8sObject!Deployment@16 (Array Int Int))
(declare-const H!parser_K8sObject!StatefulSet@0 (Array Int Int))
(declare-const H!parser_K8sObject!StatefulSet@17 (Array Int Int))
(declare-const H!parser_K8sObject!ReplicationController@0 (Array Int Int))
(declare-const H!parser_K8sObject!ReplicationController@18 (Array Int Int))
(declare-const H!parser_K8sObject!Job@0 (Array Int Int))
(declare-const H!parser_K8sObject!Job@19 (Array Int Int))
(declare-const H!parser_K8sObject!CronJob@0 (Array Int Int))
(declare-const H!parser_K8sObject!CronJob@20 (Array Int Int))
(declare-const H!parser_K8sObject!DaemonSet@0 (Array Int Int))
(declare-const H!parser_K8sObject!DaemonSet@21 (Array Int Int))
(declare-const pc!s!22 Bool)
(declare-const pc!s!23 Bool)
(declare-const ok!24 Bool)
(declare-const l!unstructuredObj!25 Int)
(declare-const pc!e0_2!27 Bool)
(declare-const pc!s!28 Bool)
(declare-const pc!s!29 Bool)
(declare-const new!30 Int)
(declare-const next!31 Int)
(declare-const H!parser_FileProcessingError!docID@0 (Array Int Int))
(declare-const H!parser_FileProcessingError!docID@32 (Array Int Int))
(declare-const H!parser_FileProcessingError!err@0 (Array Int Iface))
(declare-const H!parser_FileProcessingError!err@34 (Array Int Iface))
(declare-const H!parser_FileProcessingError!fatal@0 (Array Int Bool))
(declare-const H!parser_FileProcessingError!fatal@36 (Array Int Bool))
(declare-const H!parser_FileProcessingError!filePath@0 (Array Int Str))
(declare-const H!parser_FileProcessingError!filePath@38 (Array Int Str))
(declare-const H!parser_FileProcessingError!lineNum@0 (Array Int Int))
(declare-const H!parser_FileProcessingError!lineNum@40 (Array Int Int))
(declare-const H!parser_FileProcessingError!severe@0 (Array Int Bool))
(declare-const H!parser_FileProcessingError!severe@42 (Array Int Bool))
(declare-const H!parser_MalformedYamlDocError!origErr@0 (Array Int Iface))
(declare-const H!parser_MalformedYamlDocError!origErr@44 (Array Int Iface))
(declare-const next!46 Int)
(declare-const r!malformedYamlDoc!47 Int)
(declare-const pc!s!48 Bool)
(declare-const B!$Array$Int$Iface$@0 (Array Int (Array Int Iface)))
(declare-const B!$Array$Int$Iface$@49 (Array Int (Array Int Iface)))
(declare-const next!51 Int)
(declare-const r!logError!52 Int)
(assert (forall ((s Str)) (! (>= (str!len s) 0) :pattern ((str!len s)))))
(assert (= (str!len 0) 0))
(assert (forall ((a Str) (b Str)) (! (= (str!len (str!cat a b)) (+ (str!len a) (str!len b))) :pattern ((str!cat a b)))))
(assert (forall ((a Str)) (! (= (str!cat a 0) a) :pattern ((str!cat a 0)))))
(assert (forall ((a Str)) (! (= (str!cat 0 a) a) :pattern ((str!cat 0 a)))))
(assert (forall ((a Str)) (! (not (str!lt a a)) :pattern ((str!lt a a)))))
(assert (forall ((a Str) (b Str)) (! (or (str!lt a b) (str!lt b a) (= a b)) :pattern ((str!lt a b)))))
(assert (forall ((a Str) (b Str)) (! (not (and (str!lt a b) (str!lt b a))) :pattern ((str!lt a b)))))
(assert (forall ((a Str) (b Str) (c Str)) (! (=> (and (str!lt a b) (str!lt b c)) (str!lt a c)) :pattern ((str!lt a b) (str!lt b c)))))
(assert (forall ((v Str)) (! (= (unbox!Str (box!Str v)) v) :pattern ((box!Str v)))))
(assert (forall ((r!w Int)) (! (and (<= 0 (select H!logger_DefaultLogger!l@0 r!w)) (< (select H!logger_DefaultLogger!l@0 r!w) next@0)) :pattern ((select H!logger_DefaultLogger!l@0 r!w)))))
(assert (forall ((r!w Int)) (! (and (<= 0 (select H!parser_K8sObject!Namespace@0 r!w)) (< (select H!parser_K8sObject!Namespace@0 r!w) next@0)) :pattern ((select H!parser_K8sObject!Namespace@0 r!w)))))
(assert (forall ((r!w Int)) (! (and (<= 0 (select H!parser_K8sObject!Namespace@7 r!w)) (< (select H!parser_K8sObject!Namespace@7 r!w) next!5)) :pattern ((select H!parser_K8sObject!Namespace@7 r!w)))))
(assert (forall ((r!w Int)) (! (and (<= 0 (select H!parser_K8sObject!NetworkPolicy@0 r!w)) (< (select H!parser_K8sObject!NetworkPolicy@0 r!w) next@0)) :pattern ((select H!parser_K8sObject!NetworkPolicy@0 r!w)))))
(assert (forall ((r!w Int)) (! (and (<= 0 (select H!parser_K8sObject!NetworkPolicy@8 r!w)) (< (select H!parser_K8sObject!NetworkPolicy@8 r!w) next!5)) :pattern ((select H!parser_K8sObject!NetworkPolicy@8 r!w)))))
(assert (forall ((r!w Int)) (! (and (<= 0 (select H!parser_K8sObject!AdminNetworkPolicy@0 r!w)) (< (select H!parser_K8sObject!AdminNetworkPolicy@0 r!w) next@0)) :pattern ((select H!parser_K8sObject!AdminNetworkPolicy@0 r!w)))))
(assert (forall ((r!w Int)) (! (and (<= 0 (select H!parser_K8sObject!AdminNetworkPolicy@9 r!w)) (< (select H!parser_K8sObject!AdminNetworkPolicy@9 r!w) next!5)) :pattern ((select H!parser_K8sObject!AdminNetworkPolicy@9 r!w)))))
(assert (forall ((r!w Int)) (! (and (<= 0 (select H!parser_K8sObject!BaselineAdminNetworkPolicy@0 r!w)) (< (select H!parser_K8sObject!BaselineAdminNetworkPolicy@0 r!w) next@0)) :pattern ((select H!parser_K8sObject!BaselineAdminNetworkPolicy@0 r!w)))))
(assert (forall ((r!w Int)) (! (and (<= 0 (select H!parser_K8sObject!BaselineAdminNetworkPolicy@10 r!w)) (< (select H!parser_K8sObject!BaselineAdminNetworkPolicy@10 r!w) next!5)) :pattern ((select H!parser_K8sObject!BaselineAdminNetworkPolicy@10 r!w)))))
(assert (forall ((r!w Int)) (! (and (<= 0 (select H!parser_K8sObject!Pod@0 r!w)) (< (select H!parser_K8sObject!Pod@0 r!w) next@0)) :pattern ((select H!parser_K8sObject!Pod@0 r!w)))))
(assert (forall ((r!w Int)) (! (and (<= 0 (select H!parser_K8sObject!Pod@11 r!w)) (< (select H!parser_K8sObject!Pod@11 r!w) next!5)) :pattern ((select H!parser_K8sObject!Pod@11 r!w)))))
(assert (forall ((r!w Int)) (! (and (<= 0 (select H!parser_K8sObject!Service@0 r!w)) (< (select H!parser_K8sObject!Service@0 r!w) next@0)) :pattern ((select H!parser_K8sObject!Service@0 r!w)))))
(assert (forall ((r!w Int)) (! (and (<= 0 (select H!parser_K8sObject!Service@12 r!w)) (< (select H!parser_K8sObject!Service@12 r!w) next!5)) :pattern ((select H!parser_K8sObject!Service@12 r!w)))))
(assert (forall ((r!w Int)) (! (and (<= 0 (select H!parser_K8sObject!Route@0 r!w)) (< (select H!parser_K8sObject!Route@0 r!w) next@0)) :pattern ((select H!parser_K8sObject!Route@0 r!w)))))
(assert (forall ((r!w Int)) (! (and (<= 0 (select H!parser_K8sObject!Route@13 r!w)) (< (select H!parser_K8sObject!Route@13 r!w) next!5)) :pattern ((select H!parser_K8sObject!Route@13 r!w)))))
(assert (forall ((r!w Int)) (! (and (<= 0 (select H!parser_K8sObject!Ingress@0 r!w)) (< (select H!parser_K8sObject!Ingress@0 r!w) next@0)) :pattern ((select H!parser_K8sObject!Ingress@0 r!w)))))
(assert (forall ((r!w Int)) (! (and (<= 0 (select H!parser_K8sObject!Ingress@14 r!w)) (< (select H!parser_K8sObject!Ingress@14 r!w) next!5)) :pattern ((select H!parser_K8sObject!Ingress@14 r!w)))))
(assert (forall ((r!w Int)) (! (and (<= 0 (select H!parser_K8sObject!ReplicaSet@0 r!w)) (< (select H!parser_K8sObject!ReplicaSet@0 r!w) next@0)) :pattern ((select H!parser_K8sObject!ReplicaSet@0 r!w)))))
(assert (forall ((r!w Int)) (! (and (<= 0 (select H!parser_K8sObject!ReplicaSet@15 r!w)) (< (select H!parser_K8sObject!ReplicaSet@15 r!w) next!5)) :pattern ((select H!parser_K8sObject!ReplicaSet@15 r!w)))))
(assert (forall ((r!w Int)) (! (and (<= 0 (select H!parser_K8sObject!Deployment@0 r!w)) (< (select H!parser_K8sObject!Deployment@0 r!w) next@0)) :pattern ((select H!parser_K8sObject!Deployment@0 r!w)))))
(assert (forall ((r!w Int)) (! (and (<= 0 (select H!parser_K8sObject!Deployment@16 r!w)) (< (select H!parser_K8sObject!Deployment@16 r!w) next!5)) :pattern ((select H!parser_K8sObject!Deployment@16 r!w)))))
(assert (forall ((r!w Int)) (! (and (<= 0 (select H!parser_K8sObject!StatefulSet@0 r!w)) (< (select H!parser_K8sObject!StatefulSet@0 r!w) next@0)) :pattern ((select H!parser_K8sObject!StatefulSet@0 r!w)))))
(assert (forall ((r!w Int)) (! (and (<= 0 (select H!parser_K8sObject!StatefulSet@17 r!w)) (< (select H!parser_K8sObject!StatefulSet@17 r!w) next!5)) :pattern ((select H!parser_K8sObject!StatefulSet@17 r!w)))))
(assert (forall ((r!w Int)) (! (and (<= 0 (select H!parser_K8sObject!ReplicationController@0 r!w)) (< (select H!parser_K8sObject!ReplicationController@0 r!w) next@0)) :pattern ((select H!parser_K8sObject!ReplicationController@0 r!w)))))
(assert (forall ((r!w Int)) (! (and (<= 0 (select H!parser_K8sObject!ReplicationController@18 r!w)) (< (select H!parser_K8sObject!ReplicationController@18 r!w) next!5)) :pattern ((select H!parser_K8sObject!ReplicationController@18 r!w)))))
(assert (forall ((r!w Int)) (! (and (<= 0 (select H!parser_K8sObject!Job@0 r!w)) (< (select H!parser_K8sObject!Job@0 r!w) next@0)) :pattern ((select H!parser_K8sObject!Job@0 r!w)))))
(assert (forall ((r!w Int)) (! (and (<= 0 (select H!parser_K8sObject!Job@19 r!w)) (< (select H!parser_K8sObject!Job@19 r!w) next!5)) :pattern ((select H!parser_K8sObject!Job@19 r!w)))))
(assert (forall ((r!w Int)) (! (and (<= 0 (select H!parser_K8sObject!CronJob@0 r!w)) (< (select H!parser_K8sObject!CronJob@0 r!w) next@0)) :pattern ((select H!parser_K8sObject!CronJob@0 r!w)))))
(assert (forall ((r!w Int)) (! (and (<= 0 (select H!parser_K8sObject!CronJob@20 r!w)) (< (select H!parser_K8sObject!CronJob@20 r!w) next!5)) :pattern ((select H!parser_K8sObject!CronJob@20 r!w)))))
(assert (forall ((r!w Int)) (! (and (<= 0 (select H!parser_K8sObject!DaemonSet@0 r!w)) (< (select H!parser_K8sObject!DaemonSet@0 r!w) next@0)) :pattern ((select H!parser_K8sObject!DaemonSet@0 r!w)))))
(assert (forall ((r!w Int)) (! (and (<= 0 (select H!parser_K8sObject!DaemonSet@21 r!w)) (< (select H!parser_K8sObject!DaemonSet@21 r!w) next!5)) :pattern ((select H!parser_K8sObject!DaemonSet@21 r!w)))))
(assert (=> pc!entry!1 (>= next@0 1)))
(assert (=> pc!entry!1 (<= 0 p!info)))
(assert (=> pc!entry!1 (< p!info next@0)))
(assert (=> pc!entry!1 (<= 0 (itag p!l))))
(assert (=> pc!entry!1 (=> (= (itag p!l) 0) (= (iref p!l) 0))))
(assert (=> pc!entry!1 (and (not (= p!info 0)) (and (not (= p!l (mk-iface 0 0))) (=> (= (itag p!l) 1) (and (not (= (iref p!l) 0)) (not (= (select H!logger_DefaultLogger!l@0 (iref p!l)) 0))))))))
(assert (=> pc!entry!1 (=> (= (itag (select H!resource_Info!Object@0 p!info)) 6) (not (= (iref (select H!resource_Info!Object@0 p!info)) 0)))))
(assert (=> pc!pre!2 pc!entry!1))
(assert (=> pc!s!4 pc!pre!2))
(assert (=> pc!s!4 (= new!3 next@0)))
(assert (=> pc!s!4 (= next!5 (+ next@0 1))))
(assert (=> pc!s!4 (= H!parser_K8sObject!Kind@6 (store H!parser_K8sObject!Kind@0 new!3 0))))
(assert (=> pc!s!4 (= H!parser_K8sObject!Namespace@7 (store H!parser_K8sObject!Namespace@0 new!3 0))))
(assert (=> pc!s!4 (= H!parser_K8sObject!NetworkPolicy@8 (store H!parser_K8sObject!NetworkPolicy@0 new!3 0))))
(assert (=> pc!s!4 (= H!parser_K8sObject!AdminNetworkPolicy@9 (store H!parser_K8sObject!AdminNetworkPolicy@0 new!3 0))))
(assert (=> pc!s!4 (= H!parser_K8sObject!BaselineAdminNetworkPolicy@10 (store H!parser_K8sObject!BaselineAdminNetworkPolicy@0 new!3 0))))
(assert (=> pc!s!4 (= H!parser_K8sObject!Pod@11 (store H!parser_K8sObject!Pod@0 new!3 0))))
(assert (=> pc!s!4 (= H!parser_K8sObject!Service@12 (store H!parser_K8sObject!Service@0 new!3 0))))
(assert (=> pc!s!4 (= H!parser_K8sObject!Route@13 (store H!parser_K8sObject!Route@0 new!3 0))))
(assert (=> pc!s!4 (= H!parser_K8sObject!Ingress@14 (store H!parser_K8sObject!Ingress@0 new!3 0))))
(assert (=> pc!s!4 (= H!parser_K8sObject!ReplicaSet@15 (store H!parser_K8sObject!ReplicaSet@0 new!3 0))))
(assert (=> pc!s!4 (= H!parser_K8sObject!Deployment@16 (store H!parser_K8sObject!Deployment@0 new!3 0))))
(assert (=> pc!s!4 (= H!parser_K8sObject!StatefulSet@17 (store H!parser_K8sObject!StatefulSet@0 new!3 0))))
(assert (=> pc!s!4 (= H!parser_K8sObject!ReplicationController@18 (store H!parser_K8sObject!ReplicationController@0 new!3 0))))
(assert (=> pc!s!4 (= H!parser_K8sObject!Job@19 (store H!parser_K8sObject!Job@0 new!3 0))))
(assert (=> pc!s!4 (= H!parser_K8sObject!CronJob@20 (store H!parser_K8sObject!CronJob@0 new!3 0))))
(assert (=> pc!s!4 (= H!parser_K8sObject!DaemonSet@21 (store H!parser_K8sObject!DaemonSet@0 new!3 0))))
(assert (=> pc!s!4 (<= 0 p!info)))
(assert (=> pc!s!4 (< p!info next!5)))
(assert (=> pc!s!22 pc!s!4))
(assert (=> pc!s!22 (not (= p!info 0))))
(assert (=> pc!s!23 pc!s!22))
(assert (=> pc!s!23 (not (= p!info 0))))
(assert (=> pc!s!23 (<= 0 (itag (select H!resource_Info!Object@0 p!info)))))
(assert (=> pc!s!23 (=> (= (itag (select H!resource_Info!Object@0 p!info)) 0) (= (iref (select H!resource_Info!Object@0 p!info)) 0))))
(assert (=> pc!s!23 (= ok!24 (= (itag (select H!resource_Info!Object@0 p!info)) 6))))
(assert (=> pc!s!23 (= l!unstructuredObj!25 (ite ok!24 (iref (select H!resource_Info!Object@0 p!info)) 0))))
(assert (=> pc!e0_2!27 (and pc!s!23 (not ok!24))))
(assert (=> pc!e0_2!27 (<= 0 p!info)))
(assert (=> pc!e0_2!27 (< p!info next!5)))
(assert (=> pc!s!28 pc!e0_2!27))
(assert (=> pc!s!28 (not (= p!info 0))))
(assert (=> pc!s!29 pc!s!28))
(assert (=> pc!s!29 (not (= p!info 0))))
(assert (=> pc!s!29 (= new!30 next!5)))
(assert (=> pc!s!29 (= next!31 (+ next!5 1))))
(assert (=> pc!s!29 (forall ((r!f33 Int)) (! (=> (and (< 0 r!f33) (< r!f33 next!31)) (= (select H!parser_FileProcessingError!docID@32 r!f33) (select H!parser_FileProcessingError!docID@0 r!f33))) :pattern ((select H!parser_FileProcessingError!docID@32 r!f33))))))
(assert (=> pc!s!29 (forall ((r!f35 Int)) (! (=> (and (< 0 r!f35) (< r!f35 next!31)) (= (select H!parser_FileProcessingError!err@34 r!f35) (select H!parser_FileProcessingError!err@0 r!f35))) :pattern ((select H!parser_FileProcessingError!err@34 r!f35))))))
(assert (=> pc!s!29 (forall ((r!f37 Int)) (! (=> (and (< 0 r!f37) (< r!f37 next!31)) (= (select H!parser_FileProcessingError!fatal@36 r!f37) (select H!parser_FileProcessingError!fatal@0 r!f37))) :pattern ((select H!parser_FileProcessingError!fatal@36 r!f37))))))
(assert (=> pc!s!29 (forall ((r!f39 Int)) (! (=> (and (< 0 r!f39) (< r!f39 next!31)) (= (select H!parser_FileProcessingError!filePath@38 r!f39) (select H!parser_FileProcessingError!filePath@0 r!f39))) :pattern ((select H!parser_FileProcessingError!filePath@38 r!f39))))))
(assert (=> pc!s!29 (forall ((r!f41 Int)) (! (=> (and (< 0 r!f41) (< r!f41 next!31)) (= (select H!parser_FileProcessingError!lineNum@40 r!f41) (select H!parser_FileProcessingError!lineNum@0 r!f41))) :pattern ((select H!parser_FileProcessingError!lineNum@40 r!f41))))))
(assert (=> pc!s!29 (forall ((r!f43 Int)) (! (=> (and (< 0 r!f43) (< r!f43 next!31)) (= (select H!parser_FileProcessingError!severe@42 r!f43) (select H!parser_FileProcessingError!severe@0 r!f43))) :pattern ((select H!parser_FileProcessingError!severe@42 r!f43))))))
(assert (=> pc!s!29 (forall ((r!f45 Int)) (! (=> (and (< 0 r!f45) (< r!f45 next!31)) (= (select H!parser_MalformedYamlDocError!origErr@44 r!f45) (select H!parser_MalformedYamlDocError!origErr@0 r!f45))) :pattern ((select H!parser_MalformedYamlDocError!origErr@44 r!f45))))))
(assert (=> pc!s!29 (>= next!46 next!31)))
(assert (=> pc!s!29 (<= 0 r!malformedYamlDoc!47)))
(assert (=> pc!s!29 (< r!malformedYamlDoc!47 next!46)))
(assert (=> pc!s!29 (and (and (and (and (not (= r!malformedYamlDoc!47 0)) (and (<= next!31 r!malformedYamlDoc!47) (< r!malformedYamlDoc!47 next!46))) (select H!parser_FileProcessingError!severe@42 r!malformedYamlDoc!47)) (not (select H!parser_FileProcessingError!fatal@36 r!malformedYamlDoc!47))) (not (= (select H!parser_FileProcessingError!err@34 r!malformedYamlDoc!47) (mk-iface 0 0))))))
(assert (=> pc!s!29 (<= 0 (itag p!l))))
(assert (=> pc!s!29 (=> (= (itag p!l) 0) (= (iref p!l) 0))))
(assert (=> pc!s!29 (<= 0 r!malformedYamlDoc!47)))
(assert (=> pc!s!29 (< r!malformedYamlDoc!47 next!46)))
(assert (=> pc!s!48 pc!s!29))
(assert (=> pc!s!48 (and (and (not (= r!malformedYamlDoc!47 0)) (not (= (select H!parser_FileProcessingError!err@34 r!malformedYamlDoc!47) (mk-iface 0 0)))) (and (not (= p!l (mk-iface 0 0))) (=> (= (itag p!l) 1) (and (not (= (iref p!l) 0)) (not (= (select H!logger_DefaultLogger!l@0 (iref p!l)) 0))))))))
(assert (=> pc!s!48 (forall ((r!f50 Int)) (! (=> (and (< 0 r!f50) (< r!f50 next!46)) (= (select B!$Array$Int$Iface$@49 r!f50) (select B!$Array$Int$Iface$@0 r!f50))) :pattern ((select B!$Array$Int$Iface$@49 r!f50))))))
(assert (=> pc!s!48 (>= next!51 next!46)))
(assert (=> pc!s!48 (<= 0 r!logError!52)))
(assert (=> pc!s!48 (< r!logError!52 next!51)))
(assert (=> pc!s!48 (and (= (select H!parser_FileProcessingError!severe@42 r!malformedYamlDoc!47) (select H!parser_FileProcessingError!severe@42 r!malformedYamlDoc!47)) (= (select H!parser_FileProcessingError!fatal@36 r!malformedYamlDoc!47) (select H!parser_FileProcessingError!fatal@36 r!malformedYamlDoc!47)))))
(assert (=> pc!s!48 (<= 0 0)))
(assert (=> pc!s!48 (< 0 next!51)))
(assert (=> pc!s!48 (<= 0 r!logError!52)))
(assert (=> pc!s!48 (< r!logError!52 next!51)))
(assert pc!s!48)
(assert (not (=> (not (= r!logError!52 0)) (and (and (= 0 0) (select H!parser_FileProcessingError!severe@42 r!logError!52)) (not (select H!parser_FileProcessingError!fatal@36 r!logError!52))))))
(check-sat)
