(set-logic ALL)
(define-sort Str () Int)
(declare-datatypes ((Iface 0)) (((mk-iface (itag Int) (iref Int)))))
; str 1 = "error reading file"
; str 2 = "%s: %v"
; str 3 = "Error getting resourceInfos from dir path"
; str 4 = "error writing to file %s: %w"
; str 5 = "error creating file %s: %w"
; str 6 = "TCP"
; str 7 = "UDP"
; str 8 = "SCTP"
; str 9 = "/"
; str 10 = "png"
; str 11 = "svg"
; str 12 = "txt"
; str 13 = "json"
; str 14 = "dot"
; str 15 = "csv"
; str 16 = "md"
; str 17 = "serve-80-tcp"
; str 18 = "a"
; str 19 = "b"
; str 20 = "c"
; str 21 = "d"
; str 22 = "e"
; str 23 = "f"
; str 24 = "g"
; str 25 = "h"
; str 26 = "np"
; str 27 = "lp"
; str 28 = "pp"
(declare-fun flagTruncates (Int) Bool)
(declare-fun emptyB () Str)
(declare-fun strBytes (Str) Str)
(declare-fun writeAt0 (Str Str) Str)
(declare-fun box!Str (Str) Int)
(declare-fun unbox!Str (Int) Str)
(declare-const pc!entry!1 Bool)
(declare-const next@0 Int)
(declare-const p!output Str)
(declare-const p!filePath Str)
(declare-const pc!pre!2 Bool)
(declare-const G!diskContent@0 (Array Int Str))
(declare-const G!diskContent@3 (Array Int Str))
(declare-const G!fhPath@0 (Array Int Str))
(declare-const G!fhPath@5 (Array Int Str))
(declare-const next!7 Int)
(declare-const r!OpenFile!8 Int)
(declare-const r!OpenFile!9 Iface)
(declare-const pc!e0_2!11 Bool)
(declare-const pc!s!12 Bool)
(declare-const G!diskContent@13 (Array Int Str))
(declare-const next!15 Int)
(declare-const r!WriteString!16 Int)
(declare-const r!WriteString!17 Iface)
(declare-const pc!e2_5!19 Bool)
(assert (forall ((x!q64 Str)) (! (= (writeAt0 emptyB x!q64) x!q64) :pattern ((writeAt0 emptyB x!q64)))))
(assert (forall ((v Str)) (! (= (unbox!Str (box!Str v)) v) :pattern ((box!Str v)))))
(assert (=> pc!entry!1 (>= next@0 1)))
(assert (=> pc!pre!2 pc!entry!1))
(assert (=> pc!pre!2 (forall ((r!f4 Int)) (! (=> (and (< 0 r!f4) (< r!f4 next@0) (not (= r!f4 p!filePath))) (= (select G!diskContent@3 r!f4) (select G!diskContent@0 r!f4))) :pattern ((select G!diskContent@3 r!f4))))))
(assert (=> pc!pre!2 (forall ((r!f6 Int)) (! (=> (and (< 0 r!f6) (< r!f6 next@0) (not false)) (= (select G!fhPath@5 r!f6) (select G!fhPath@0 r!f6))) :pattern ((select G!fhPath@5 r!f6))))))
(assert (=> pc!pre!2 (>= next!7 next@0)))
(assert (=> pc!pre!2 (<= 0 r!OpenFile!8)))
(assert (=> pc!pre!2 (< r!OpenFile!8 next!7)))
(assert (=> pc!pre!2 (<= 0 (itag r!OpenFile!9))))
(assert (=> pc!pre!2 (=> (= (itag r!OpenFile!9) 0) (= (iref r!OpenFile!9) 0))))
(assert (=> pc!pre!2 (=> (= r!OpenFile!9 (mk-iface 0 0)) (and (and (not (= r!OpenFile!8 0)) (and (<= next@0 r!OpenFile!8) (< r!OpenFile!8 next!7))) (= (select G!fhPath@5 r!OpenFile!8) p!filePath)))))
(assert (=> pc!pre!2 (=> (and (= r!OpenFile!9 (mk-iface 0 0)) (flagTruncates 65)) (= (select G!diskContent@3 p!filePath) emptyB))))
(assert (=> pc!pre!2 (=> (and (= r!OpenFile!9 (mk-iface 0 0)) (not (flagTruncates 65))) (= (select G!diskContent@3 p!filePath) (select G!diskContent@0 p!filePath)))))
(assert (=> pc!pre!2 (=> (not (= r!OpenFile!9 (mk-iface 0 0))) (= r!OpenFile!8 0))))
(assert (=> pc!pre!2 (<= 0 (itag r!OpenFile!9))))
(assert (=> pc!pre!2 (=> (= (itag r!OpenFile!9) 0) (= (iref r!OpenFile!9) 0))))
(assert (=> pc!e0_2!11 (and pc!pre!2 (not (not (= r!OpenFile!9 (mk-iface 0 0)))))))
(assert (=> pc!e0_2!11 (<= 0 0)))
(assert (=> pc!e0_2!11 (< 0 next!7)))
(assert (=> pc!e0_2!11 (<= 0 r!OpenFile!8)))
(assert (=> pc!e0_2!11 (< r!OpenFile!8 next!7)))
(assert (=> pc!e0_2!11 (<= 0 r!OpenFile!8)))
(assert (=> pc!e0_2!11 (< r!OpenFile!8 next!7)))
(assert (=> pc!s!12 pc!e0_2!11))
(assert (=> pc!s!12 (not (= r!OpenFile!8 0))))
(assert (=> pc!s!12 (forall ((r!f14 Int)) (! (=> (and (< 0 r!f14) (< r!f14 next!7) (not (= r!f14 (select G!fhPath@5 r!OpenFile!8)))) (= (select G!diskContent@13 r!f14) (select G!diskContent@3 r!f14))) :pattern ((select G!diskContent@13 r!f14))))))
(assert (=> pc!s!12 (>= next!15 next!7)))
(assert (=> pc!s!12 (<= (- 9223372036854775808) r!WriteString!16)))
(assert (=> pc!s!12 (<= r!WriteString!16 9223372036854775807)))
(assert (=> pc!s!12 (<= 0 (itag r!WriteString!17))))
(assert (=> pc!s!12 (=> (= (itag r!WriteString!17) 0) (= (iref r!WriteString!17) 0))))
(assert (=> pc!s!12 (=> (= r!WriteString!17 (mk-iface 0 0)) (= (select G!diskContent@13 (select G!fhPath@5 r!OpenFile!8)) (writeAt0 (select G!diskContent@3 (select G!fhPath@5 r!OpenFile!8)) (strBytes p!output))))))
(assert (=> pc!s!12 (<= 0 (itag r!WriteString!17))))
(assert (=> pc!s!12 (=> (= (itag r!WriteString!17) 0) (= (iref r!WriteString!17) 0))))
(assert (=> pc!e2_5!19 (and pc!s!12 (not (not (= r!WriteString!17 (mk-iface 0 0)))))))
(assert (=> pc!e2_5!19 (<= 0 (itag (mk-iface 0 0)))))
(assert (=> pc!e2_5!19 (=> (= (itag (mk-iface 0 0)) 0) (= (iref (mk-iface 0 0)) 0))))
(assert pc!e2_5!19)
(assert (not (=> (= (mk-iface 0 0) (mk-iface 0 0)) (= (select G!diskContent@13 p!filePath) (strBytes p!output)))))
(check-sat)
