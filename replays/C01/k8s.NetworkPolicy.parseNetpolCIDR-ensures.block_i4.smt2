(set-logic ALL)
(define-sort Str () Int)
(declare-datatypes ((Iface 0)) (((mk-iface (itag Int) (iref Int)))))
; str 1 = "TCP"
; str 2 = "UDP"
; str 3 = "SCTP"
; str 4 = "named port error"
; str 5 = "cannot convert named port for an IP destination"
; str 6 = "network policy %s %s: %s"
; str 7 = "CIDR error"
; str 8 = "kubernetes.io/metadata.name"
; str 9 = "representative-pod"
; str 10 = "/"
; str 11 = "txt"
; str 12 = "csv"
; str 13 = "md"
; str 14 = "dot"
; str 15 = "a"
; str 16 = "b"
; str 17 = "c"
; str 18 = "d"
; str 19 = "e"
; str 20 = "f"
; str 21 = "g"
; str 22 = "h"
; str 23 = "np"
; str 24 = "lp"
; str 25 = "pp"
; str 26 = "serve-80-tcp"
; str 27 = "png"
; str 28 = "svg"
; str 29 = "json"
(declare-datatypes ((Slice_Str 0)) (((mk!Slice_Str (sl-arr!Slice_Str (Array Int Str)) (sl-len!Slice_Str Int) (sl-nil!Slice_Str Bool)))))
(define-fun zero!Slice_Str () Slice_Str (mk!Slice_Str ((as const (Array Int Str)) 0) 0 true))
(declare-fun cidrSet (Str) (Array Int Bool))
(declare-fun box!Str (Str) Int)
(declare-fun unbox!Str (Int) Str)
(declare-const pc!entry!1 Bool)
(declare-const next@0 Int)
(declare-const p!np Int)
(declare-const p!cidr Str)
(declare-const p!except Slice_Str)
(declare-const H!k8s_NetworkPolicy!NetworkPolicy@0 (Array Int Int))
(declare-const pc!pre!2 Bool)
(declare-const pc!s!3 Bool)
(declare-const pc!s!4 Bool)
(declare-const pc!s!5 Bool)
(declare-const H!k8s_NetworkPolicy!parsedIPBlocks@0 (Array Int Int))
(declare-const v!t11!6 Int)
(declare-const Md!Str!Int@0 (Array Int (Array Str Bool)))
(declare-const has!7 Bool)
(declare-const Mv!Str!Int@0 (Array Int (Array Str Int)))
(declare-const mv!t13!8 Int)
(declare-const pc!e0_1!9 Bool)
(declare-const G!ipset@0 (Array Int (Array Int Bool)))
(assert (forall ((v Str)) (! (= (unbox!Str (box!Str v)) v) :pattern ((box!Str v)))))
(assert (forall ((r!w Int)) (! (and (<= 0 (select H!k8s_NetworkPolicy!NetworkPolicy@0 r!w)) (< (select H!k8s_NetworkPolicy!NetworkPolicy@0 r!w) next@0)) :pattern ((select H!k8s_NetworkPolicy!NetworkPolicy@0 r!w)))))
(assert (forall ((r!w Int)) (! (and (<= 0 (select H!k8s_NetworkPolicy!parsedIPBlocks@0 r!w)) (< (select H!k8s_NetworkPolicy!parsedIPBlocks@0 r!w) next@0)) :pattern ((select H!k8s_NetworkPolicy!parsedIPBlocks@0 r!w)))))
(assert (forall ((r!w Int) (k!w Str)) (! (and (<= 0 (select (select Mv!Str!Int@0 r!w) k!w)) (< (select (select Mv!Str!Int@0 r!w) k!w) next@0)) :pattern ((select (select Mv!Str!Int@0 r!w) k!w)))))
(assert (=> pc!entry!1 (>= next@0 1)))
(assert (=> pc!entry!1 (<= 0 p!np)))
(assert (=> pc!entry!1 (< p!np next@0)))
(assert (=> pc!entry!1 (>= (sl-len!Slice_Str p!except) 0)))
(assert (=> pc!entry!1 (=> (sl-nil!Slice_Str p!except) (= (sl-len!Slice_Str p!except) 0))))
(assert (=> pc!entry!1 (and (not (= p!np 0)) (not (= (select H!k8s_NetworkPolicy!NetworkPolicy@0 p!np) 0)))))
(assert (=> pc!pre!2 pc!entry!1))
(assert (=> pc!s!3 pc!pre!2))
(assert (=> pc!s!3 (<= 0 p!np)))
(assert (=> pc!s!3 (< p!np next@0)))
(assert (=> pc!s!4 pc!s!3))
(assert (=> pc!s!4 (not (= p!np 0))))
(assert (=> pc!s!5 pc!s!4))
(assert (=> pc!s!5 (not (= p!np 0))))
(assert (=> pc!s!5 (= v!t11!6 (select H!k8s_NetworkPolicy!parsedIPBlocks@0 p!np))))
(assert (=> pc!s!5 (<= 0 v!t11!6)))
(assert (=> pc!s!5 (< v!t11!6 next@0)))
(assert (=> pc!s!5 (= has!7 (and (not (= v!t11!6 0)) (select (select Md!Str!Int@0 v!t11!6) p!cidr)))))
(assert (=> pc!s!5 (= mv!t13!8 (ite has!7 (select (select Mv!Str!Int@0 v!t11!6) p!cidr) 0))))
(assert (=> pc!s!5 (<= 0 mv!t13!8)))
(assert (=> pc!s!5 (< mv!t13!8 next@0)))
(assert (=> pc!e0_1!9 (and pc!s!5 has!7)))
(assert (=> pc!e0_1!9 (<= 0 mv!t13!8)))
(assert (=> pc!e0_1!9 (< mv!t13!8 next@0)))
(assert (=> pc!e0_1!9 (<= 0 mv!t13!8)))
(assert (=> pc!e0_1!9 (< mv!t13!8 next@0)))
(assert (=> pc!e0_1!9 (<= 0 (itag (mk-iface 0 0)))))
(assert (=> pc!e0_1!9 (=> (= (itag (mk-iface 0 0)) 0) (= (iref (mk-iface 0 0)) 0))))
(assert pc!e0_1!9)
(assert (not (=> (= (mk-iface 0 0) (mk-iface 0 0)) (and (not (= mv!t13!8 0)) (forall ((a!q128 Int)) (! (= (select (select G!ipset@0 mv!t13!8) a!q128) (and (select (cidrSet p!cidr) a!q128) (not (exists ((k!q129 Int)) (and (and (<= 0 k!q129) (< k!q129 (sl-len!Slice_Str p!except))) (select (cidrSet (select (sl-arr!Slice_Str p!except) k!q129)) a!q128)))))) :pattern ((select (select G!ipset@0 mv!t13!8) a!q128))))))))
(check-sat)
