(set-logic ALL)
(define-sort Str () Int)
(declare-datatypes ((Iface 0)) (((mk-iface (itag Int) (iref Int)))))
; str 1 = "CIDR error"
; str 2 = "network policy %s %s: %s"
; str 3 = "TCP"
; str 4 = "UDP"
; str 5 = "SCTP"
; str 6 = "selector error"
; str 7 = "/"
; str 8 = "txt"
; str 9 = "csv"
; str 10 = "md"
; str 11 = "dot"
; str 12 = "a"
; str 13 = "b"
; str 14 = "c"
; str 15 = "d"
; str 16 = "e"
; str 17 = "f"
; str 18 = "g"
; str 19 = "h"
; str 20 = "np"
; str 21 = "lp"
; str 22 = "pp"
; str 23 = "png"
; str 24 = "svg"
; str 25 = "json"
; str 26 = "serve-80-tcp"
(declare-fun box!Str (Str) Int)
(declare-fun unbox!Str (Int) Str)
(declare-const pc!entry!1 Bool)
(declare-const next@0 Int)
(declare-const p!np Int)
(declare-const p!ruleSelector Int)
(declare-const p!peerSelector Int)
(declare-const p!peerLabels Int)
(declare-const p!isPeerRepresentative Bool)
(declare-const H!k8s_NetworkPolicy!NetworkPolicy@0 (Array Int Int))
(declare-const pc!pre!2 Bool)
(declare-const pc!e0_2!4 Bool)
(assert (forall ((v Str)) (! (= (unbox!Str (box!Str v)) v) :pattern ((box!Str v)))))
(assert (forall ((r!w Int)) (! (and (<= 0 (select H!k8s_NetworkPolicy!NetworkPolicy@0 r!w)) (< (select H!k8s_NetworkPolicy!NetworkPolicy@0 r!w) next@0)) :pattern ((select H!k8s_NetworkPolicy!NetworkPolicy@0 r!w)))))
(assert (=> pc!entry!1 (>= next@0 1)))
(assert (=> pc!entry!1 (<= 0 p!np)))
(assert (=> pc!entry!1 (< p!np next@0)))
(assert (=> pc!entry!1 (<= 0 p!ruleSelector)))
(assert (=> pc!entry!1 (< p!ruleSelector next@0)))
(assert (=> pc!entry!1 (<= 0 p!peerSelector)))
(assert (=> pc!entry!1 (< p!peerSelector next@0)))
(assert (=> pc!entry!1 (<= 0 p!peerLabels)))
(assert (=> pc!entry!1 (< p!peerLabels next@0)))
(assert (=> pc!entry!1 (and (not (= p!np 0)) (not (= (select H!k8s_NetworkPolicy!NetworkPolicy@0 p!np) 0)))))
(assert (=> pc!pre!2 pc!entry!1))
(assert (=> pc!e0_2!4 (and pc!pre!2 (not p!isPeerRepresentative))))
(assert (=> pc!e0_2!4 (<= 0 p!ruleSelector)))
(assert (=> pc!e0_2!4 (< p!ruleSelector next@0)))
(assert pc!e0_2!4)
(assert (not (not (= p!ruleSelector 0))))
(check-sat)
