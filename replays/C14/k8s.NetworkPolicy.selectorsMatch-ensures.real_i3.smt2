(set-logic ALL)
(define-sort Str () Int)
(declare-datatypes ((Iface 0)) (((mk-iface (itag Int) (iref Int)))))
; str 1 = "CIDR error"
; str 2 = "network policy %s %s: %s"
; str 3 = "TCP"
; str 4 = "UDP"
; str 5 = "SCTP"
; str 6 = "selector error"
; str 7 = "/"
; str 8 = "txt"
; str 9 = "csv"
; str 10 = "md"
; str 11 = "dot"
; str 12 = "a"
; str 13 = "b"
; str 14 = "c"
; str 15 = "d"
; str 16 = "e"
; str 17 = "f"
; str 18 = "g"
; str 19 = "h"
; str 20 = "np"
; str 21 = "lp"
; str 22 = "pp"
; str 23 = "png"
; str 24 = "svg"
; str 25 = "json"
; str 26 = "serve-80-tcp"
(declare-datatypes ((V_v1_LabelSelectorRequirement 0)) (((mk!V_v1_LabelSelectorRequirement))))
(define-fun zero!V_v1_LabelSelectorRequirement () V_v1_LabelSelectorRequirement mk!V_v1_LabelSelectorRequirement)
(declare-datatypes ((Slice_V_v1_LabelSelectorRequirement 0)) (((mk!Slice_V_v1_LabelSelectorRequirement (sl-arr!Slice_V_v1_LabelSelectorRequirement (Array Int V_v1_LabelSelectorRequirement)) (sl-len!Slice_V_v1_LabelSelectorRequirement Int) (sl-nil!Slice_V_v1_LabelSelectorRequirement Bool)))))
(define-fun zero!Slice_V_v1_LabelSelectorRequirement () Slice_V_v1_LabelSelectorRequirement (mk!Slice_V_v1_LabelSelectorRequirement ((as const (Array Int V_v1_LabelSelectorRequirement)) mk!V_v1_LabelSelectorRequirement) 0 true))
(declare-fun lsValid (Int) Bool)
(declare-fun box!Str (Str) Int)
(declare-fun unbox!Str (Int) Str)
(declare-fun lsMatch (Int Int) Bool)
(declare-const pc!entry!1 Bool)
(declare-const next@0 Int)
(declare-const p!np Int)
(declare-const p!ruleSelector Int)
(declare-const p!peerSelector Int)
(declare-const p!peerLabels Int)
(declare-const p!isPeerRepresentative Bool)
(declare-const H!k8s_NetworkPolicy!NetworkPolicy@0 (Array Int Int))
(declare-const pc!pre!2 Bool)
(declare-const pc!e0_2!4 Bool)
(declare-const pc!s!5 Bool)
(declare-const pc!s!6 Bool)
(declare-const H!v1_LabelSelector!MatchExpressions@0 (Array Int Slice_V_v1_LabelSelectorRequirement))
(declare-const v!t19!7 Slice_V_v1_LabelSelectorRequirement)
(declare-const pc!e2_3!8 Bool)
(declare-const pc!s!73 Bool)
(declare-const pc!s!74 Bool)
(declare-const H!v1_LabelSelector!MatchLabels@0 (Array Int Int))
(declare-const v!t24!75 Int)
(declare-const seen!76 (Array Str Bool))
(declare-const pc!e3_5!77 Bool)
(declare-const pc!loop1!78 Bool)
(declare-const seen!79 (Array Str Bool))
(declare-const ok!80 Bool)
(declare-const k!81 Str)
(declare-const v!82 Str)
(declare-const Md!Str!Str@0 (Array Int (Array Str Bool)))
(declare-const Mv!Str!Str@0 (Array Int (Array Str Str)))
(declare-const seen!84 (Array Str Bool))
(declare-const pc!e5_7!86 Bool)
(assert (forall ((v Str)) (! (= (unbox!Str (box!Str v)) v) :pattern ((box!Str v)))))
(assert (forall ((r!w Int)) (! (and (<= 0 (select H!k8s_NetworkPolicy!NetworkPolicy@0 r!w)) (< (select H!k8s_NetworkPolicy!NetworkPolicy@0 r!w) next@0)) :pattern ((select H!k8s_NetworkPolicy!NetworkPolicy@0 r!w)))))
(assert (forall ((r!w Int)) (! (and (<= 0 (select H!v1_LabelSelector!MatchLabels@0 r!w)) (< (select H!v1_LabelSelector!MatchLabels@0 r!w) next@0)) :pattern ((select H!v1_LabelSelector!MatchLabels@0 r!w)))))
(assert (=> pc!entry!1 (>= next@0 1)))
(assert (=> pc!entry!1 (<= 0 p!np)))
(assert (=> pc!entry!1 (< p!np next@0)))
(assert (=> pc!entry!1 (<= 0 p!ruleSelector)))
(assert (=> pc!entry!1 (< p!ruleSelector next@0)))
(assert (=> pc!entry!1 (<= 0 p!peerSelector)))
(assert (=> pc!entry!1 (< p!peerSelector next@0)))
(assert (=> pc!entry!1 (<= 0 p!peerLabels)))
(assert (=> pc!entry!1 (< p!peerLabels next@0)))
(assert (=> pc!entry!1 (and (not (= p!np 0)) (not (= (select H!k8s_NetworkPolicy!NetworkPolicy@0 p!np) 0)))))
(assert (=> pc!pre!2 pc!entry!1))
(assert (=> pc!e0_2!4 (and pc!pre!2 (not p!isPeerRepresentative))))
(assert (=> pc!e0_2!4 (<= 0 p!ruleSelector)))
(assert (=> pc!e0_2!4 (< p!ruleSelector next@0)))
(assert (=> pc!s!5 pc!e0_2!4))
(assert (=> pc!s!5 (not (= p!ruleSelector 0))))
(assert (=> pc!s!6 pc!s!5))
(assert (=> pc!s!6 (not (= p!ruleSelector 0))))
(assert (=> pc!s!6 (= v!t19!7 (select H!v1_LabelSelector!MatchExpressions@0 p!ruleSelector))))
(assert (=> pc!s!6 (>= (sl-len!Slice_V_v1_LabelSelectorRequirement v!t19!7) 0)))
(assert (=> pc!s!6 (=> (sl-nil!Slice_V_v1_LabelSelectorRequirement v!t19!7) (= (sl-len!Slice_V_v1_LabelSelectorRequirement v!t19!7) 0))))
(assert (=> pc!e2_3!8 (and pc!s!6 (= (sl-len!Slice_V_v1_LabelSelectorRequirement v!t19!7) 0))))
(assert (=> pc!e2_3!8 (<= 0 p!ruleSelector)))
(assert (=> pc!e2_3!8 (< p!ruleSelector next@0)))
(assert (=> pc!s!73 pc!e2_3!8))
(assert (=> pc!s!73 (not (= p!ruleSelector 0))))
(assert (=> pc!s!74 pc!s!73))
(assert (=> pc!s!74 (not (= p!ruleSelector 0))))
(assert (=> pc!s!74 (= v!t24!75 (select H!v1_LabelSelector!MatchLabels@0 p!ruleSelector))))
(assert (=> pc!s!74 (<= 0 v!t24!75)))
(assert (=> pc!s!74 (< v!t24!75 next@0)))
(assert (=> pc!s!74 (= seen!76 ((as const (Array Str Bool)) false))))
(assert (=> pc!e3_5!77 pc!s!74))
(assert (=> pc!loop1!78 pc!e3_5!77))
(assert (=> pc!loop1!78 (=> (= v!t24!75 0) (= seen!79 ((as const (Array Str Bool)) false)))))
(assert (=> pc!loop1!78 (=> ok!80 (and (not (= v!t24!75 0)) (select (select Md!Str!Str@0 v!t24!75) k!81) (not (select seen!79 k!81)) (= v!82 (select (select Mv!Str!Str@0 v!t24!75) k!81))))))
(assert (=> pc!loop1!78 (=> (not ok!80) (or (= v!t24!75 0) (forall ((k!n83 Str)) (! (=> (select (select Md!Str!Str@0 v!t24!75) k!n83) (select seen!79 k!n83)) :pattern ((select (select Md!Str!Str@0 v!t24!75) k!n83)) :pattern ((select seen!79 k!n83))))))))
(assert (=> pc!loop1!78 (= seen!84 (ite ok!80 (store seen!79 k!81 true) seen!79))))
(assert (=> pc!e5_7!86 (and pc!loop1!78 (not ok!80))))
(assert (=> pc!e5_7!86 (<= 0 (itag (mk-iface 0 0)))))
(assert (=> pc!e5_7!86 (=> (= (itag (mk-iface 0 0)) 0) (= (iref (mk-iface 0 0)) 0))))
(assert pc!e5_7!86)
(assert (not (=> (and (not p!isPeerRepresentative) (= (mk-iface 0 0) (mk-iface 0 0))) (and (= true (lsMatch p!ruleSelector p!peerLabels)) (lsValid p!ruleSelector)))))
(check-sat)
