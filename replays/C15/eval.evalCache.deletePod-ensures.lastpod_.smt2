(set-logic ALL)
(define-sort Str () Int)
(declare-datatypes ((Iface 0)) (((mk-iface (itag Int) (iref Int)))))
; str 1 = "Only one object of a given kind can have a given name at a time."
; str 2 = "an AdminNetworkPolicy with name %q is already found. %s"
; str 3 = "exposure analysis is disabled when there are admin-network-policies in the input resources"
; str 4 = "/"
; str 5 = "cacheHitsLog.txt"
; str 6 = "cache hit on key: %v \n"
; str 7 = "error WriteString: %v"
; str 8 = "TCP"
; str 9 = "UDP"
; str 10 = "SCTP"
; str 11 = "png"
; str 12 = "svg"
; str 13 = "serve-80-tcp"
; str 14 = "txt"
; str 15 = "csv"
; str 16 = "md"
; str 17 = "dot"
; str 18 = "a"
; str 19 = "b"
; str 20 = "c"
; str 21 = "d"
; str 22 = "e"
; str 23 = "f"
; str 24 = "g"
; str 25 = "h"
; str 26 = "np"
; str 27 = "lp"
; str 28 = "pp"
; str 29 = "json"
(declare-datatypes ((V_k8s_Owner 0)) (((mk!V_k8s_Owner (V_k8s_Owner.Kind Str) (V_k8s_Owner.Name Str) (V_k8s_Owner.APIVersion Str) (V_k8s_Owner.Variant Str)))))
(define-fun zero!V_k8s_Owner () V_k8s_Owner (mk!V_k8s_Owner 0 0 0 0))
(define-fun upd!V_k8s_Owner.Kind ((s V_k8s_Owner) (v Str)) V_k8s_Owner (mk!V_k8s_Owner v (V_k8s_Owner.Name s) (V_k8s_Owner.APIVersion s) (V_k8s_Owner.Variant s)))
(define-fun upd!V_k8s_Owner.Name ((s V_k8s_Owner) (v Str)) V_k8s_Owner (mk!V_k8s_Owner (V_k8s_Owner.Kind s) v (V_k8s_Owner.APIVersion s) (V_k8s_Owner.Variant s)))
(define-fun upd!V_k8s_Owner.APIVersion ((s V_k8s_Owner) (v Str)) V_k8s_Owner (mk!V_k8s_Owner (V_k8s_Owner.Kind s) (V_k8s_Owner.Name s) v (V_k8s_Owner.Variant s)))
(define-fun upd!V_k8s_Owner.Variant ((s V_k8s_Owner) (v Str)) V_k8s_Owner (mk!V_k8s_Owner (V_k8s_Owner.Kind s) (V_k8s_Owner.Name s) (V_k8s_Owner.APIVersion s) v))
(declare-fun strJoin3 (Str Str Str Str) Str)
(declare-fun strContains (Str Str) Bool)
(declare-fun card!Str ((Array Str Bool)) Int)
(declare-fun wit!Str ((Array Str Bool)) Str)
(declare-fun dwit!Str ((Array Str Bool) (Array Str Bool)) Str)
(declare-const pc!entry!1 Bool)
(declare-const next@0 Int)
(declare-const p!ec Int)
(declare-const p!p Int)
(declare-const p!podName Str)
(declare-const H!eval_evalCache!cache@0 (Array Int Int))
(declare-const H!eval_evalCache!ownerToPods@0 (Array Int Int))
(declare-const pc!pre!2 Bool)
(declare-const pc!s!3 Bool)
(declare-const pc!s!4 Bool)
(declare-const B!$Array$Int$Str$@0 (Array Int (Array Int Str)))
(declare-const B!$Array$Int$Str$@5 (Array Int (Array Int Str)))
(declare-const next!7 Int)
(declare-const r!getPodOwnerKey!8 Str)
(declare-const H!k8s_Pod!Namespace@0 (Array Int Str))
(declare-const H!k8s_Pod!Owner@0 (Array Int V_k8s_Owner))
(declare-const pc!s!9 Bool)
(declare-const pc!s!10 Bool)
(declare-const new!11 Int)
(declare-const next!12 Int)
(declare-const pc!s!13 Bool)
(declare-const pc!s!14 Bool)
(declare-const pc!s!15 Bool)
(declare-const pc!s!16 Bool)
(declare-const Md!Str!Int@0 (Array Int (Array Str Bool)))
(declare-const has!17 Bool)
(declare-const Mv!Str!Int@0 (Array Int (Array Str Int)))
(declare-const mv!t20!18 Int)
(declare-const pc!e0_2!20 Bool)
(declare-const Md!Str!V_struct$$@0 (Array Int (Array Str Bool)))
(declare-const G!lruHas@0 (Array Int (Array Str Bool)))
(assert (forall ((S (Array Str Bool))) (! (>= (card!Str S) 0) :pattern ((card!Str S)))))
(assert (forall ((S (Array Str Bool)) (k Str)) (! (= (card!Str (store S k true)) (+ (card!Str S) (ite (select S k) 0 1))) :pattern ((card!Str (store S k true))))))
(assert (forall ((S (Array Str Bool)) (k Str)) (! (= (card!Str (store S k false)) (- (card!Str S) (ite (select S k) 1 0))) :pattern ((card!Str (store S k false))))))
(assert (= (card!Str ((as const (Array Str Bool)) false)) 0))
(assert (forall ((S (Array Str Bool)) (k Str)) (! (=> (= (card!Str S) 0) (not (select S k))) :pattern ((card!Str S) (select S k)))))
(assert (forall ((S (Array Str Bool))) (! (=> (> (card!Str S) 0) (select S (wit!Str S))) :pattern ((card!Str S)))))
(assert (forall ((S (Array Str Bool)) (T (Array Str Bool))) (! (=> (= (card!Str S) (card!Str T)) (or (= S T) (and (select S (dwit!Str S T)) (not (select T (dwit!Str S T)))))) :pattern ((card!Str S) (card!Str T)))))
(assert (=> pc!entry!1 (>= next@0 1)))
(assert (=> pc!entry!1 (<= 0 p!ec)))
(assert (=> pc!entry!1 (< p!ec next@0)))
(assert (=> pc!entry!1 (<= 0 p!p)))
(assert (=> pc!entry!1 (< p!p next@0)))
(assert (=> pc!entry!1 (and (and (and (not (= p!ec 0)) (not (= (select H!eval_evalCache!cache@0 p!ec) 0))) (not (= p!p 0))) (not (= (select H!eval_evalCache!ownerToPods@0 p!ec) 0)))))
(assert (=> pc!pre!2 pc!entry!1))
(assert (=> pc!s!3 pc!pre!2))
(assert (=> pc!s!3 (<= 0 p!p)))
(assert (=> pc!s!3 (< p!p next@0)))
(assert (=> pc!s!4 pc!s!3))
(assert (=> pc!s!4 (not (= p!p 0))))
(assert (=> pc!s!4 (forall ((r!f6 Int)) (! (=> (and (< 0 r!f6) (< r!f6 next@0)) (= (select B!$Array$Int$Str$@5 r!f6) (select B!$Array$Int$Str$@0 r!f6))) :pattern ((select B!$Array$Int$Str$@5 r!f6))))))
(assert (=> pc!s!4 (>= next!7 next@0)))
(assert (=> pc!s!4 (= r!getPodOwnerKey!8 (strJoin3 (select H!k8s_Pod!Namespace@0 p!p) (V_k8s_Owner.Name (select H!k8s_Pod!Owner@0 p!p)) (V_k8s_Owner.Variant (select H!k8s_Pod!Owner@0 p!p)) 4))))
(assert (=> pc!s!4 (<= 0 p!ec)))
(assert (=> pc!s!4 (< p!ec next!7)))
(assert (=> pc!s!9 pc!s!4))
(assert (=> pc!s!9 (not (= p!ec 0))))
(assert (=> pc!s!10 pc!s!9))
(assert (=> pc!s!10 (not (= p!ec 0))))
(assert (=> pc!s!10 (= new!11 next!7)))
(assert (=> pc!s!10 (= next!12 (+ next!7 1))))
(assert (=> pc!s!13 pc!s!10))
(assert (=> pc!s!13 (not (= new!11 0))))
(assert (=> pc!s!13 (<= 0 0)))
(assert (=> pc!s!13 (< 0 next!12)))
(assert (=> pc!s!13 (<= 0 p!ec)))
(assert (=> pc!s!13 (< p!ec next!12)))
(assert (=> pc!s!14 pc!s!13))
(assert (=> pc!s!14 (not (= p!ec 0))))
(assert (=> pc!s!14 (<= 0 p!ec)))
(assert (=> pc!s!14 (< p!ec next!12)))
(assert (=> pc!s!15 pc!s!14))
(assert (=> pc!s!15 (not (= p!ec 0))))
(assert (=> pc!s!16 pc!s!15))
(assert (=> pc!s!16 (not (= p!ec 0))))
(assert (=> pc!s!16 (<= 0 (select H!eval_evalCache!ownerToPods@0 p!ec))))
(assert (=> pc!s!16 (< (select H!eval_evalCache!ownerToPods@0 p!ec) next!12)))
(assert (=> pc!s!16 (= has!17 (and (not (= (select H!eval_evalCache!ownerToPods@0 p!ec) 0)) (select (select Md!Str!Int@0 (select H!eval_evalCache!ownerToPods@0 p!ec)) r!getPodOwnerKey!8)))))
(assert (=> pc!s!16 (= mv!t20!18 (ite has!17 (select (select Mv!Str!Int@0 (select H!eval_evalCache!ownerToPods@0 p!ec)) r!getPodOwnerKey!8) 0))))
(assert (=> pc!s!16 (<= 0 mv!t20!18)))
(assert (=> pc!s!16 (< mv!t20!18 next!12)))
(assert (=> pc!e0_2!20 (and pc!s!16 (not has!17))))
(assert pc!e0_2!20)
(assert (not (=> (or (not (select (select Md!Str!Int@0 (select H!eval_evalCache!ownerToPods@0 p!ec)) (strJoin3 (select H!k8s_Pod!Namespace@0 p!p) (V_k8s_Owner.Name (select H!k8s_Pod!Owner@0 p!p)) (V_k8s_Owner.Variant (select H!k8s_Pod!Owner@0 p!p)) 4))) (forall ((n!q21 Str)) (! (=> (select (select Md!Str!V_struct$$@0 (select (select Mv!Str!Int@0 (select H!eval_evalCache!ownerToPods@0 p!ec)) (strJoin3 (select H!k8s_Pod!Namespace@0 p!p) (V_k8s_Owner.Name (select H!k8s_Pod!Owner@0 p!p)) (V_k8s_Owner.Variant (select H!k8s_Pod!Owner@0 p!p)) 4))) n!q21) (= n!q21 p!podName)) :pattern ((select (select Md!Str!V_struct$$@0 (select (select Mv!Str!Int@0 (select H!eval_evalCache!ownerToPods@0 p!ec)) (strJoin3 (select H!k8s_Pod!Namespace@0 p!p) (V_k8s_Owner.Name (select H!k8s_Pod!Owner@0 p!p)) (V_k8s_Owner.Variant (select H!k8s_Pod!Owner@0 p!p)) 4))) n!q21))))) (forall ((k!q22 Str)) (! (=> (strContains k!q22 (strJoin3 (select H!k8s_Pod!Namespace@0 p!p) (V_k8s_Owner.Name (select H!k8s_Pod!Owner@0 p!p)) (V_k8s_Owner.Variant (select H!k8s_Pod!Owner@0 p!p)) 4)) (not (select (select G!lruHas@0 (select H!eval_evalCache!cache@0 p!ec)) k!q22))) :pattern ((select (select G!lruHas@0 (select H!eval_evalCache!cache@0 p!ec)) k!q22)))))))
(check-sat)
