(set-logic ALL)
(define-sort Str () Int)
(declare-datatypes ((Iface 0)) (((mk-iface (itag Int) (iref Int)))))
; str 1 = "Only one object of a given kind can have a given name at a time."
; str 2 = "an AdminNetworkPolicy with name %q is already found. %s"
; str 3 = "exposure analysis is disabled when there are admin-network-policies in the input resources"
; str 4 = "default"
; str 5 = "only one baseline admin network policy with metadata.name=default can be created in the cluster"
; str 6 = "only one baseline admin network policy may be provided in input resources; one already exists"
; str 7 = "TCP"
; str 8 = "UDP"
; str 9 = "SCTP"
; str 10 = "Ingress"
; str 11 = "Egress"
; str 12 = "NetworkPolicy %q already exists. %s"
; str 13 = "Invalid Priority Value: %d in Admin Network Policy: %q; Priority value must be between %d-%d"
; str 14 = "Admin Network Policies: "
; str 15 = " and "
; str 16 = " have same priority;"
; str 17 = "Two policies are considered to be conflicting if they are assigned the same priority."
; str 18 = "/"
; str 19 = "txt"
; str 20 = "json"
; str 21 = "dot"
; str 22 = "csv"
; str 23 = "md"
; str 24 = "serve-80-tcp"
; str 25 = "png"
; str 26 = "svg"
; str 27 = "a"
; str 28 = "b"
; str 29 = "c"
; str 30 = "d"
; str 31 = "e"
; str 32 = "f"
; str 33 = "g"
; str 34 = "h"
; str 35 = "np"
; str 36 = "lp"
; str 37 = "pp"
(declare-const pc!entry!1 Bool)
(declare-const n!1 Int)
(declare-const n!2 Int)
(declare-const l!c Int)
(declare-const H!common_ConnectionSet!AllowedProtocols@0 (Array Int Int))
(declare-const Md!Str!Int@0 (Array Int (Array Str Bool)))
(declare-const Mv!Str!Int@0 (Array Int (Array Str Int)))
(declare-const H!common_PortSet!Ports@0 (Array Int Int))
(declare-const H!common_PortSet!NamedPorts@0 (Array Int Int))
(declare-const H!common_PortSet!ExcludedNamedPorts@0 (Array Int Int))
(declare-const Md!Str!Bool@0 (Array Int (Array Str Bool)))
(declare-const Mv!Str!Bool@0 (Array Int (Array Str Bool)))
(declare-const G!iset@0 (Array Int (Array Int Bool)))
(declare-const H!common_ConnectionSet!AllowAll@0 (Array Int Bool))
(assert (forall ((r!w Int)) (! (and (<= 0 (select H!common_ConnectionSet!AllowedProtocols@0 r!w)) (< (select H!common_ConnectionSet!AllowedProtocols@0 r!w) next@0)) :pattern ((select H!common_ConnectionSet!AllowedProtocols@0 r!w)))))
(assert (forall ((r!w Int) (k!w Str)) (! (and (<= 0 (select (select Mv!Str!Int@0 r!w) k!w)) (< (select (select Mv!Str!Int@0 r!w) k!w) next@0)) :pattern ((select (select Mv!Str!Int@0 r!w) k!w)))))
(assert (forall ((r!w Int)) (! (and (<= 0 (select H!common_PortSet!Ports@0 r!w)) (< (select H!common_PortSet!Ports@0 r!w) next@0)) :pattern ((select H!common_PortSet!Ports@0 r!w)))))
(assert (forall ((r!w Int)) (! (and (<= 0 (select H!common_PortSet!NamedPorts@0 r!w)) (< (select H!common_PortSet!NamedPorts@0 r!w) next@0)) :pattern ((select H!common_PortSet!NamedPorts@0 r!w)))))
(assert (forall ((r!w Int)) (! (and (<= 0 (select H!common_PortSet!ExcludedNamedPorts@0 r!w)) (< (select H!common_PortSet!ExcludedNamedPorts@0 r!w) next@0)) :pattern ((select H!common_PortSet!ExcludedNamedPorts@0 r!w)))))
(assert (=> pc!entry!1 (<= n!1 n!2)))
(assert (=> pc!entry!1 (and (and (and (and (and (and (not (= l!c 0)) (and (< 0 l!c) (< l!c n!1))) (not (= (select H!common_ConnectionSet!AllowedProtocols@0 l!c) 0))) (and (< 0 (select H!common_ConnectionSet!AllowedProtocols@0 l!c)) (< (select H!common_ConnectionSet!AllowedProtocols@0 l!c) n!1))) (forall ((q!q2 Str)) (! (=> (select (select Md!Str!Int@0 (select H!common_ConnectionSet!AllowedProtocols@0 l!c)) q!q2) (and (and (let ((a!p!3 (select (select Mv!Str!Int@0 (select H!common_ConnectionSet!AllowedProtocols@0 l!c)) q!q2))) (and (and (and (and (and (and (and (and (and (and (not (= a!p!3 0)) (and (< 0 a!p!3) (< a!p!3 n!1))) (not (= (select H!common_PortSet!Ports@0 a!p!3) 0))) (and (< 0 (select H!common_PortSet!Ports@0 a!p!3)) (< (select H!common_PortSet!Ports@0 a!p!3) n!1))) (not (= (select H!common_PortSet!NamedPorts@0 a!p!3) 0))) (and (< 0 (select H!common_PortSet!NamedPorts@0 a!p!3)) (< (select H!common_PortSet!NamedPorts@0 a!p!3) n!1))) (not (= (select H!common_PortSet!ExcludedNamedPorts@0 a!p!3) 0))) (and (< 0 (select H!common_PortSet!ExcludedNamedPorts@0 a!p!3)) (< (select H!common_PortSet!ExcludedNamedPorts@0 a!p!3) n!1))) (not (= (select H!common_PortSet!NamedPorts@0 a!p!3) (select H!common_PortSet!ExcludedNamedPorts@0 a!p!3)))) (forall ((s!q4 Str)) (! (=> (select (select Md!Str!Bool@0 (select H!common_PortSet!NamedPorts@0 a!p!3)) s!q4) (select (select Mv!Str!Bool@0 (select H!common_PortSet!NamedPorts@0 a!p!3)) s!q4)) :pattern ((select (select Md!Str!Bool@0 (select H!common_PortSet!NamedPorts@0 a!p!3)) s!q4))))) (forall ((s!q5 Str)) (! (=> (select (select Md!Str!Bool@0 (select H!common_PortSet!ExcludedNamedPorts@0 a!p!3)) s!q5) (select (select Mv!Str!Bool@0 (select H!common_PortSet!ExcludedNamedPorts@0 a!p!3)) s!q5)) :pattern ((select (select Md!Str!Bool@0 (select H!common_PortSet!ExcludedNamedPorts@0 a!p!3)) s!q5)))))) (or (or (= q!q2 7) (= q!q2 8)) (= q!q2 9))) (let ((a!p!6 (select (select Mv!Str!Int@0 (select H!common_ConnectionSet!AllowedProtocols@0 l!c)) q!q2))) (forall ((n!q7 Int)) (! (=> (select (select G!iset@0 (select H!common_PortSet!Ports@0 a!p!6)) n!q7) (and (<= 1 n!q7) (<= n!q7 65535))) :pattern ((select (select G!iset@0 (select H!common_PortSet!Ports@0 a!p!6)) n!q7))))))) :pattern ((select (select Md!Str!Int@0 (select H!common_ConnectionSet!AllowedProtocols@0 l!c)) q!q2))))) (forall ((q!q8 Str) (r!q9 Str)) (! (=> (and (and (select (select Md!Str!Int@0 (select H!common_ConnectionSet!AllowedProtocols@0 l!c)) q!q8) (select (select Md!Str!Int@0 (select H!common_ConnectionSet!AllowedProtocols@0 l!c)) r!q9)) (not (= q!q8 r!q9))) (let ((a!a!10 (select (select Mv!Str!Int@0 (select H!common_ConnectionSet!AllowedProtocols@0 l!c)) q!q8)) (a!b!11 (select (select Mv!Str!Int@0 (select H!common_ConnectionSet!AllowedProtocols@0 l!c)) r!q9))) (and (and (and (and (and (not (= a!a!10 a!b!11)) (not (= (select H!common_PortSet!Ports@0 a!a!10) (select H!common_PortSet!Ports@0 a!b!11)))) (not (= (select H!common_PortSet!NamedPorts@0 a!a!10) (select H!common_PortSet!NamedPorts@0 a!b!11)))) (not (= (select H!common_PortSet!NamedPorts@0 a!a!10) (select H!common_PortSet!ExcludedNamedPorts@0 a!b!11)))) (not (= (select H!common_PortSet!ExcludedNamedPorts@0 a!a!10) (select H!common_PortSet!NamedPorts@0 a!b!11)))) (not (= (select H!common_PortSet!ExcludedNamedPorts@0 a!a!10) (select H!common_PortSet!ExcludedNamedPorts@0 a!b!11)))))) :pattern ((select (select Md!Str!Int@0 (select H!common_ConnectionSet!AllowedProtocols@0 l!c)) q!q8) (select (select Md!Str!Int@0 (select H!common_ConnectionSet!AllowedProtocols@0 l!c)) r!q9))))) (=> (select H!common_ConnectionSet!AllowAll@0 l!c) (forall ((q!q12 Str)) (! (not (select (select Md!Str!Int@0 (select H!common_ConnectionSet!AllowedProtocols@0 l!c)) q!q12)) :pattern ((select (select Md!Str!Int@0 (select H!common_ConnectionSet!AllowedProtocols@0 l!c)) q!q12))))))))
(assert pc!entry!1)
(assert (not (and (and (and (and (and (and (not (= l!c 0)) (and (< 0 l!c) (< l!c n!2))) (not (= (select H!common_ConnectionSet!AllowedProtocols@0 l!c) 0))) (and (< 0 (select H!common_ConnectionSet!AllowedProtocols@0 l!c)) (< (select H!common_ConnectionSet!AllowedProtocols@0 l!c) n!2))) (forall ((q!q13 Str)) (! (=> (select (select Md!Str!Int@0 (select H!common_ConnectionSet!AllowedProtocols@0 l!c)) q!q13) (and (and (let ((a!p!14 (select (select Mv!Str!Int@0 (select H!common_ConnectionSet!AllowedProtocols@0 l!c)) q!q13))) (and (and (and (and (and (and (and (and (and (and (not (= a!p!14 0)) (and (< 0 a!p!14) (< a!p!14 n!2))) (not (= (select H!common_PortSet!Ports@0 a!p!14) 0))) (and (< 0 (select H!common_PortSet!Ports@0 a!p!14)) (< (select H!common_PortSet!Ports@0 a!p!14) n!2))) (not (= (select H!common_PortSet!NamedPorts@0 a!p!14) 0))) (and (< 0 (select H!common_PortSet!NamedPorts@0 a!p!14)) (< (select H!common_PortSet!NamedPorts@0 a!p!14) n!2))) (not (= (select H!common_PortSet!ExcludedNamedPorts@0 a!p!14) 0))) (and (< 0 (select H!common_PortSet!ExcludedNamedPorts@0 a!p!14)) (< (select H!common_PortSet!ExcludedNamedPorts@0 a!p!14) n!2))) (not (= (select H!common_PortSet!NamedPorts@0 a!p!14) (select H!common_PortSet!ExcludedNamedPorts@0 a!p!14)))) (forall ((s!q15 Str)) (! (=> (select (select Md!Str!Bool@0 (select H!common_PortSet!NamedPorts@0 a!p!14)) s!q15) (select (select Mv!Str!Bool@0 (select H!common_PortSet!NamedPorts@0 a!p!14)) s!q15)) :pattern ((select (select Md!Str!Bool@0 (select H!common_PortSet!NamedPorts@0 a!p!14)) s!q15))))) (forall ((s!q16 Str)) (! (=> (select (select Md!Str!Bool@0 (select H!common_PortSet!ExcludedNamedPorts@0 a!p!14)) s!q16) (select (select Mv!Str!Bool@0 (select H!common_PortSet!ExcludedNamedPorts@0 a!p!14)) s!q16)) :pattern ((select (select Md!Str!Bool@0 (select H!common_PortSet!ExcludedNamedPorts@0 a!p!14)) s!q16)))))) (or (or (= q!q13 7) (= q!q13 8)) (= q!q13 9))) (let ((a!p!17 (select (select Mv!Str!Int@0 (select H!common_ConnectionSet!AllowedProtocols@0 l!c)) q!q13))) (forall ((n!q18 Int)) (! (=> (select (select G!iset@0 (select H!common_PortSet!Ports@0 a!p!17)) n!q18) (and (<= 1 n!q18) (<= n!q18 65535))) :pattern ((select (select G!iset@0 (select H!common_PortSet!Ports@0 a!p!17)) n!q18))))))) :pattern ((select (select Md!Str!Int@0 (select H!common_ConnectionSet!AllowedProtocols@0 l!c)) q!q13))))) (forall ((q!q19 Str) (r!q20 Str)) (! (=> (and (and (select (select Md!Str!Int@0 (select H!common_ConnectionSet!AllowedProtocols@0 l!c)) q!q19) (select (select Md!Str!Int@0 (select H!common_ConnectionSet!AllowedProtocols@0 l!c)) r!q20)) (not (= q!q19 r!q20))) (let ((a!a!21 (select (select Mv!Str!Int@0 (select H!common_ConnectionSet!AllowedProtocols@0 l!c)) q!q19)) (a!b!22 (select (select Mv!Str!Int@0 (select H!common_ConnectionSet!AllowedProtocols@0 l!c)) r!q20))) (and (and (and (and (and (not (= a!a!21 a!b!22)) (not (= (select H!common_PortSet!Ports@0 a!a!21) (select H!common_PortSet!Ports@0 a!b!22)))) (not (= (select H!common_PortSet!NamedPorts@0 a!a!21) (select H!common_PortSet!NamedPorts@0 a!b!22)))) (not (= (select H!common_PortSet!NamedPorts@0 a!a!21) (select H!common_PortSet!ExcludedNamedPorts@0 a!b!22)))) (not (= (select H!common_PortSet!ExcludedNamedPorts@0 a!a!21) (select H!common_PortSet!NamedPorts@0 a!b!22)))) (not (= (select H!common_PortSet!ExcludedNamedPorts@0 a!a!21) (select H!common_PortSet!ExcludedNamedPorts@0 a!b!22)))))) :pattern ((select (select Md!Str!Int@0 (select H!common_ConnectionSet!AllowedProtocols@0 l!c)) q!q19) (select (select Md!Str!Int@0 (select H!common_ConnectionSet!AllowedProtocols@0 l!c)) r!q20))))) (=> (select H!common_ConnectionSet!AllowAll@0 l!c) (forall ((q!q23 Str)) (! (not (select (select Md!Str!Int@0 (select H!common_ConnectionSet!AllowedProtocols@0 l!c)) q!q23)) :pattern ((select (select Md!Str!Int@0 (select H!common_ConnectionSet!AllowedProtocols@0 l!c)) q!q23))))))))
(check-sat)
