#!/bin/sh
# setup_cmd: build the verifier from files on disk only (vendored x/tools), offline.
set -e
cd /verif/gocv
mkdir -p /verif/bin
GOFLAGS=-mod=vendor GOPROXY=off GOSUMDB=off GOTOOLCHAIN=local go build -o /verif/bin/gocv ./cmd/gocv
echo "built /verif/bin/gocv"
