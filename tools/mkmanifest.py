#!/usr/bin/env python3
"""Regenerates /verif/MANIFEST.json from tools/claims.json (per-property texts) and the hook commits of /repo."""
import json, subprocess
props = [json.loads(l) for l in open('/verif/properties.jsonl')]
claims = json.load(open('/verif/tools/claims.json'))
hooks = subprocess.run(['git', '-C', '/repo', 'log', '--format=%h %s'], capture_output=True, text=True).stdout.splitlines()
hook_commits = [l.split()[0] for l in hooks if ' verif hook' in l]
checks = []
for p in props:
    c = claims.get('claimed', {}).get(p['id'])
    if not c:
        continue
    checks.append({
        "property_id": p['id'],
        "quick_cmd": "./bin/gocv check %s --tier quick" % p['id'],
        "thorough_cmd": "./bin/gocv check %s --tier thorough" % p['id'],
        "evidence_file": "/verif/evidence/%s.json" % p['id'],
        "replay_cmd_template": "./bin/gocv replay {path}",
        "engine": "gocv",
        "level_claimed": {"category": c.get("category", "proof"), "text": c["text"], "design_ref": c.get("design_ref", "DESIGN.md section 6 " + p['id'])},
        "level_note": c["note"],
        "technique": c.get("technique", "contract-based deductive verification (WP over go/ssa, SMT)"),
    })
na = []
for p in props:
    if p['id'] in claims.get('claimed', {}):
        continue
    na.append({"property_id": p['id'], "reason": claims.get('not_applicable', {}).get(p['id'], "check not built in this session; see DESIGN.md section 6 for the plan")})
m = {"version": 1,
     "setup_cmd": "./build.sh",
     "hooks": {"guard": "verif",
               "enable": "go build -tags verif (contracts are comment-only files pkg/**/zz_verif_contracts.go, read by the verifier; they add no code)",
               "baseline_off_cmd": "cd /repo && go test -mod=mod -json -vet=off -count=1 -timeout 25m ./...",
               "source_commits": hook_commits, "add_only": True},
     "engines": [{"name": "gocv", "path": "/verif/gocv", "serves_properties": sorted(claims.get('claimed', {}).keys()),
                  "kind_free_text": "self-written VC generator over go/ssa (NaiveForm) with Gobra-style contracts in build-tagged comment files; obligations discharged by z3-new 5.1.0 / z3 4.8.12 / cvc5 1.0"}],
     "checks": checks,
     "not_applicable": na,
     "notes": claims.get("notes", "")}
json.dump(m, open('/verif/MANIFEST.json', 'w'), indent=1)
print("claimed:", [c['property_id'] for c in checks])
