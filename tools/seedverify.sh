#!/bin/bash
# usage: seedverify.sh <seed-name> <worktree> <pkg pattern> <func regexp>
# Light re-check of an already confirmed seed: applies the stored patch to the scratch worktree, copies the current contracts of
# /repo next to it and runs the verifier on the functions given (no evidence is written, /repo is not touched).
export GOFLAGS=-mod=mod GOPROXY=off GOSUMDB=off GOTOOLCHAIN=local
name=$1; wt=$2; pkg=$3; fre=$4
cd $wt && git checkout -q -- . 2>/dev/null; rm -f $(git ls-files --others --exclude-standard | grep _test.go)
git apply /verif/seeded/$name/patch.diff || { echo "PATCH DOES NOT APPLY"; exit 1; }
(cd /repo && git ls-files | grep zz_verif_contracts.go) | while read f; do cp /repo/$f $wt/$f; done
cd /verif && ./bin/gocv verify -repo $wt -pkg "$pkg" -contracted -func "$fre" -timeout 15 2>&1 | grep -v "write set\|^  note\|^discharged" | cut -c1-260
