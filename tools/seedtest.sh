#!/bin/bash
# usage: seedtest.sh <seed-name> <worktree> <property ids to check...>
# Confirms a seeded change (build, suite, demo fails with / passes without), stores it under /verif/seeded/<name>,
# then applies it to /repo, runs the given checks and reverts.
export GOFLAGS=-mod=mod GOPROXY=off GOSUMDB=off GOTOOLCHAIN=local
name=$1; wt=$2; shift 2
dst=/verif/seeded/$name
mkdir -p $dst
cp -r $wt/_seed/* $dst/ 2>/dev/null
demo_path=$(python3 -c "import json;print(json.load(open('$dst/meta.json'))['demo_path'])")
demo_run=$(python3 -c "import json;print(json.load(open('$dst/meta.json'))['demo_run'])")
echo "== demo: $demo_path / $demo_run"
cd $wt
git stash -q -u 2>/dev/null; git checkout -q -- . 2>/dev/null; git stash drop -q 2>/dev/null
git status --short | head -5
git apply $dst/patch.diff || { echo "PATCH DOES NOT APPLY"; exit 1; }
demo_file=$(ls $dst/*_test.go $dst/*.go 2>/dev/null | head -1)
mkdir -p $(dirname $demo_path); cp $demo_file $demo_path
go build ./... || { echo "BUILD FAILS"; exit 1; }
echo "== demo with change (expect FAIL)"
(eval "$demo_run") > /tmp/seed_demo_with.txt 2>&1; rc_with=$?
tail -5 /tmp/seed_demo_with.txt
mv $demo_path /tmp/seed_demo_file.go
echo "== suite with change"
go test -mod=mod -vet=off -count=1 -timeout 25m ./... 2>&1 | grep -E "^\s*--- FAIL|^FAIL|^panic" | grep -v "ipblockstest_4\|TestConnListFromDir \|TestConnListFromResourceInfos \|pkg/netpol/connlist\s\|^FAIL$" | head
rm -f test_outputs/connlist/actual_*
git apply -R $dst/patch.diff
cp /tmp/seed_demo_file.go $demo_path
echo "== demo without change (expect PASS)"
(eval "$demo_run") > /tmp/seed_demo_without.txt 2>&1; rc_without=$?
tail -3 /tmp/seed_demo_without.txt
rm -f $demo_path test_outputs/connlist/actual_*
echo "rc_with=$rc_with rc_without=$rc_without"
if [ $rc_with -eq 0 ] || [ $rc_without -ne 0 ]; then echo "SEED NOT CONFIRMED"; fi
# run checks against /repo with the patch
cd /repo
git apply $dst/patch.diff || { echo "patch does not apply to /repo"; exit 1; }
for id in "$@"; do
  (cd /verif && ./bin/gocv check $id --tier quick > /tmp/seed_check_$id.txt 2>&1; echo "check $id exit=$? :"; grep -E "VIOLATION|^C[0-9]+ tier" /tmp/seed_check_$id.txt | cut -c1-300)
done
git -C /repo apply -R $dst/patch.diff || git -C /repo checkout -- .
git -C /repo status --short | head -3
# the evidence files were just rewritten by runs on the changed tree: restore them from runs on the unchanged tree
for id in "$@"; do
  (cd /verif && ./bin/gocv check $id --tier quick > /dev/null 2>&1; echo "evidence of $id restored (exit=$?)")
done
