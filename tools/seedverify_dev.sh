#!/bin/bash
# like seedverify.sh, but takes the contracts from a development worktree (arg 5) instead of /repo
export GOFLAGS=-mod=mod GOPROXY=off GOSUMDB=off GOTOOLCHAIN=local
name=$1; wt=$2; pkg=$3; fre=$4; dev=$5
cd $wt && git checkout -q -- . 2>/dev/null; rm -f $(git ls-files --others --exclude-standard | grep _test.go)
git apply /verif/seeded/$name/patch.diff || { echo "PATCH DOES NOT APPLY"; exit 1; }
(cd $dev && git ls-files | grep zz_verif_contracts.go) | while read f; do cp $dev/$f $wt/$f; done
cd /verif && ./bin/gocv verify -repo $wt -pkg "$pkg" -contracted -func "$fre" -timeout 15 2>&1 | grep -v "write set\|^  note\|^discharged" | cut -c1-260
